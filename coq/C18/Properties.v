(* C18/Properties.v — property theorems only. Each is closed by a lemma of C18/Proofs.v. *)
From Relic Require Import Base.Prelude Base.Enc Base.Hex Generated.C18_gen C18.Model C18.Proofs.
From Coq Require Import Permutation String.

(* ---------------------------------------------------------------- (a) red-black insertion *)
(* 1. the repaired insertion (new nodes red, root blackened, same recursion as redblack.insert) keeps the tree a valid
      red-black tree: black root, no red node with a red child, equal black height on every path *)
Theorem rb_insert_valid : forall (A : Type) (lt : A -> A -> bool) a t,
  rb_valid A t -> rb_valid A (insert A lt true true a t).
Proof. exact C18.Proofs.rb_insert_valid. Qed.
Theorem rb_insert_all_valid : forall (A : Type) (lt : A -> A -> bool) l, rb_valid A (insert_all A lt true true l).
Proof. exact C18.Proofs.rb_insert_all_valid. Qed.

(* 2. search-tree order and contents are preserved by the insertion as coded AND as repaired (any colour flags),
      for every transitive comparator, when the new key differs from the keys present *)
Theorem rb_insert_bst : forall (A : Type) (lt : A -> A -> bool),
  (forall x y z, lt x y = true -> lt y z = true -> lt x z = true) ->
  forall nr br a t, bst A lt t -> fresh A lt a t -> bst A lt (insert A lt nr br a t).
Proof. exact C18.Proofs.bst_insert. Qed.
Theorem rb_insert_elements : forall (A : Type) (lt : A -> A -> bool) nr br a t,
  Permutation (elements A (insert A lt nr br a t)) (a :: elements A t).
Proof. exact C18.Proofs.elements_insert. Qed.
Theorem rb_insert_all_sound : forall (A : Type) (lt : A -> A -> bool),
  (forall x y z, lt x y = true -> lt y z = true -> lt x z = true) ->
  forall nr br l, pairwise_cmp A lt (rev l) ->
  bst A lt (insert_all A lt nr br l) /\ Permutation (elements A (insert_all A lt nr br l)) l.
Proof. exact C18.Proofs.insert_all_sound. Qed.

(* 3. the boolean checker used by the validator decides exactly the declarative notion *)
Theorem rb_ok_exact : forall (A : Type) (t : tree A), rb_ok A t = true <-> rb_valid A t.
Proof. exact C18.Proofs.rb_ok_iff. Qed.

(* 4. documented pre-fix witness (flags false/false = the code before fix f87d35e: nodes created black, root never
      recoloured): three ascending insertions are not a valid tree *)
Theorem rb_current_refuted : exists l : list Z, ~ rb_valid Z (insert_all Z Z.ltb false false l).
Proof. exact C18.Proofs.rb_current_refuted. Qed.
(* 5. LIVE: redblack.Tree.Insert as srcgen reads it now (colour of the node literal, `t.Root.Red = false`) always yields a
      valid red-black tree.  If either flag regresses this statement stops being provable. *)
Theorem rb_as_coded_valid : forall (A : Type) (lt : A -> A -> bool) l,
  rb_valid A (insert_all A lt rb_new_node_red rb_root_blackened l).
Proof. exact C18.Proofs.rb_as_coded_valid. Qed.

(* 6. the directory tree rebuilt with the repaired insertion under the MS-CFB name order passes the validator's tree
      conditions (15: order, 16: red-black) and contains exactly the given entries *)
Theorem rebuilt_tree_valid : forall ents files,
  pairwise_cmp Z (ent_lt ents) (rev files) ->
  let t := insert_all Z (ent_lt ents) true true files in
  bst_b Z (ent_lt ents) t = true /\ rb_ok Z t = true /\ Permutation (elements Z t) files.
Proof. exact C18.Proofs.rebuilt_tree_valid. Qed.

(* ---------------------------------------------------------------- (c) sector allocation *)
(* 7. makeFreeSectors: exactly count distinct ids, each free in the table it returns, the table only grows by free entries *)
Theorem alloc_fresh : forall ss count t fl t', 0 < count -> 0 < mfs_per_block ss -> make_free ss count t = (fl, t') ->
  zlen fl = count /\ NoDup fl /\ (exists k, t' = t ++ repeat secid_free k) /\
  Forall (fun j => 0 <= j < zlen t' /\ sget t' j = secid_free) fl.
Proof. exact C18.Proofs.make_free_spec. Qed.
(* 8. the chaining loop builds exactly the chain of the free list and touches nothing else *)
Theorem link_chain : forall fl t, fl <> [] -> NoDup fl -> Forall (fun j => 0 <= j < zlen t) fl ->
  schain (link t fl) (first_of fl) fl /\
  (forall j, 0 <= j -> ~ In j fl -> sget (link t fl) j = sget t j) /\ zlen (link t fl) = zlen t.
Proof. exact C18.Proofs.link_spec. Qed.
(* 9. addStream above the cutoff: a fresh chain of ceil(len/ss) sectors *)
Theorem add_stream_chain : forall ss len sat, 0 < len -> 0 < ss -> 0 < mfs_per_block ss ->
  exists fl sat1 k,
    sat1 = sat ++ repeat secid_free k /\
    add_stream_long ss len sat = Ok (first_of fl, link sat1 fl) /\
    zlen fl = ceil_div len ss /\ NoDup fl /\
    Forall (fun j => 0 <= j < zlen sat1 /\ sget sat1 j = secid_free) fl /\
    schain (link sat1 fl) (first_of fl) fl /\
    (forall j, 0 <= j -> ~ In j fl -> sget (link sat1 fl) j = sget sat1 j).
Proof. exact C18.Proofs.add_stream_long_spec. Qed.
(* 10. every chain that existed before is unchanged and disjoint from the new one *)
Theorem add_stream_keeps_chains : forall sat k fl s l,
  Forall (fun j => 0 <= j < zlen (sat ++ repeat secid_free k) /\ sget (sat ++ repeat secid_free k) j = secid_free) fl ->
  fl <> [] -> NoDup fl -> schain sat s l ->
  schain (link (sat ++ repeat secid_free k) fl) s l /\ (forall j, In j l -> ~ In j fl).
Proof. exact C18.Proofs.add_stream_keeps_chains. Qed.
(* 11. freeSectors frees exactly its own chain *)
Theorem delete_frees_only_own : forall t s l, schain t s l -> l <> [] ->
  exists t', free_sectors t s = Ok t' /\ zlen t' = zlen t /\
    (forall j, In j l -> sget t' j = secid_free) /\ (forall j, 0 <= j -> ~ In j l -> sget t' j = sget t j).
Proof. exact C18.Proofs.free_sectors_spec. Qed.
(* 12. a chain that reaches its end marker never repeats a sector *)
Theorem chain_acyclic : forall t s l, schain t s l -> NoDup l.
Proof. exact C18.Proofs.schain_NoDup. Qed.

(* ---------------------------------------------------------------- (b) the validator *)
(* 13. whatever cfb_check accepts is a valid compound file in the declarative sense of C18/Proofs.v (valid_with) *)
Theorem cfb_check_sound : forall b, cfb_check b = true -> cfb_valid b.
Proof. exact C18.Proofs.cfb_check_sound. Qed.

(* ---------------------------------------------------------------- directory order *)
(* 14. relic's lessDirEnt (NameLength, then upper-cased code units with the toolchain's unicode.ToUpper table) IS the MS-CFB
       sibling order on every pair of names whose code units lie in the agreement domain ... *)
Theorem relic_order_eq_cfb : forall a b, zlen a < name_runes -> zlen b < name_runes ->
  forallb unit_agrees a = true -> forallb unit_agrees b = true -> relic_less a b = cfb_less a b.
Proof. exact C18.Proofs.relic_less_eq_cfb_less. Qed.
(* ... and the domain is: all code units below 256, all surrogate halves, every code unit >= 256 that unicode.ToUpper leaves
   alone (in particular the packed MSI names 0x3800..0x4840).  For cased letters above U+00FF the Coq transcription of the
   MS-CFB order (upcase) is caseless; there Go's table is the reference and the harness compares the real comparator with it. *)
Theorem agreement_domain :
  (forall u, 0 <= u < 256 -> unit_agrees u = true) /\
  (forall u, upper_unit_is_surrogate u = true -> unit_agrees u = true) /\
  (forall u, 256 <= u -> unit_agrees u = (upper_unit u =? u)) /\
  (forall u, 14336 <= u <= 18496 -> unit_agrees u = true).
Proof.
  exact (conj C18.Proofs.unit_agrees_below_256 (conj C18.Proofs.unit_agrees_surrogate
        (conj C18.Proofs.unit_agrees_from_256 C18.Proofs.unit_agrees_msi_range))).
Qed.
Theorem relic_order_differs_outside_domain : exists a b, relic_less a b <> cfb_less a b.
Proof. exact C18.Proofs.relic_less_vs_cfb_outside_domain. Qed.
(* 15. the MS-CFB order is a strict order (what theorem 2 needs of the comparator) *)
Theorem cfb_order_strict : (forall a, cfb_less a a = false) /\
  (forall a b c, cfb_less a b = true -> cfb_less b c = true -> cfb_less a c = true).
Proof. split; [exact C18.Proofs.cfb_less_irrefl | exact C18.Proofs.cfb_less_trans]. Qed.

(* ---------------------------------------------------------------- non-vacuity *)
Example repaired_tree_is_valid : rb_ok Z (insert_all Z Z.ltb true true [5; 3; 8; 1; 4; 7; 9; 2; 6; 0]) = true.
Proof. vm_compute. reflexivity. Qed.
Example case_pair_now_ordered : relic_less [97] [66] = true /\ cfb_less [97] [66] = true.
Proof. vm_compute. split; reflexivity. Qed.
Example prefix_tree_was_a_list : insert_all Z Z.ltb false false [0; 1; 2] = T Black E 0 (T Black E 1 (T Black E 2 E)).
Proof. vm_compute. reflexivity. Qed.
Example alloc_example : make_free 512 3 [-3; 5; -1; -2; -1; -2] = ([2; 4; 6], [-3; 5; -1; -2; -1; -2] ++ repeat (-1) 128).
Proof. vm_compute. reflexivity. Qed.
Example add_stream_example :
  add_stream_long 512 1000 [-3; 5; -1; -2; -1; -2] = Ok (2, [-3; 5; 4; -2; -2; -2]).
Proof. vm_compute. reflexivity. Qed.
(* a complete compound file (512-byte sectors, one stream "Only" of 100 bytes in the mini stream) is accepted *)
Definition sample_file : bytes := hex "d0cf11e0a1b11ae1000000000000000000000000000000003e000300feff0900060000000000000000000000010000000300000000000000001000000200000001000000feffffff0000000000000000fffffffffffffffffffffffffffffffffffffffffffffffffffffffffffffffffffffffffffffffffffffffffffffffffffffffffffffffffffffffffffffffffffffffffffffffffffffffffffffffffffffffffffffffffffffffffffffffffffffffffffffffffffffffffffffffffffffffffffffffffffffffffffffffffffffffffffffffffffffffffffffffffffffffffffffffffffffffffffffffffffffffffffffffffffffffffffffffffffffffffffffffffffffffffffffffffffffffffffffffffffffffffffffffffffffffffffffffffffffffffffffffffffffffffffffffffffffffffffffffffffffffffffffffffffffffffffffffffffffffffffffffffffffffffffffffffffffffffffffffffffffffffffffffffffffffffffffffffffffffffffffffffffffffffffffffffffffffffffffffffffffffffffffffffffffffffffffffffffffffffffffffffffffffffffffffffffffffffffffffffffffffffffffffffffffffffffffffffffffffffffffffffffffffffffffffffffffffffffffffffffffffffffffffffffffffffffffffffffffffffffffffffffffffffffffffffdfffffffefffffffefffffffeffffffffffffffffffffffffffffffffffffffffffffffffffffffffffffffffffffffffffffffffffffffffffffffffffffffffffffffffffffffffffffffffffffffffffffffffffffffffffffffffffffffffffffffffffffffffffffffffffffffffffffffffffffffffffffffffffffffffffffffffffffffffffffffffffffffffffffffffffffffffffffffffffffffffffffffffffffffffffffffffffffffffffffffffffffffffffffffffffffffffffffffffffffffffffffffffffffffffffffffffffffffffffffffffffffffffffffffffffffffffffffffffffffffffffffffffffffffffffffffffffffffffffffffffffffffffffffffffffffffffffffffffffffffffffffffffffffffffffffffffffffffffffffffffffffffffffffffffffffffffffffffffffffffffffffffffffffffffffffffffffffffffffffffffffffffffffffffffffffffffffffffffffffffffffffffffffffffffffffffffffffffffffffffffffffffffffffffffffffffffffffffffffffffffffffffffffffffffffffffffffffffffffffffffffffffffffffffffffffffffffffffffffffffffffffffffffffffffffffffffffffffffffffffffffffffffffffffffffffffffffffffffffffffffffffffffffffffffffffffffffffffffffffffffffffffffffffffffffffff3f1a59bbaea4fa4cad88dc14f300c848b5636066652343d8ae82d4316b1b3a308d0f3da5639ce25a945e5cdf691704a522d505b4e699f505472fc407adc445cd1485bb1436facf072bb3b3d7861b828cc2da142e492615a58e14511ec4cd88238971e4cd0000000000000000000000000000000000000000000000000000000000000000000000000000000000000000000000000000000000000000000000000000000000000000000000000000000000000000000000000000000000000000000000000000000000000000000000000000000000000000000000000000000000000000000000000000000000000000000000000000000000000000000000000000000000000000000000000000000000000000000000000000000000000000000000000000000000000000000000000000000000000000000000000000000000000000000000000000000000000000000000000000000000000000000000000000000000000000000000000000000000000000000000000000000000000000000000000000000000000000000000000000000000000000000000000000000000000000000000000000000000000000000000000000000000000000000000000000000000000000000000000000000000000000000000000000000000000000000000000000000000000000000000000000000000000000000000000000000001000000feffffffffffffffffffffffffffffffffffffffffffffffffffffffffffffffffffffffffffffffffffffffffffffffffffffffffffffffffffffffffffffffffffffffffffffffffffffffffffffffffffffffffffffffffffffffffffffffffffffffffffffffffffffffffffffffffffffffffffffffffffffffffffffffffffffffffffffffffffffffffffffffffffffffffffffffffffffffffffffffffffffffffffffffffffffffffffffffffffffffffffffffffffffffffffffffffffffffffffffffffffffffffffffffffffffffffffffffffffffffffffffffffffffffffffffffffffffffffffffffffffffffffffffffffffffffffffffffffffffffffffffffffffffffffffffffffffffffffffffffffffffffffffffffffffffffffffffffffffffffffffffffffffffffffffffffffffffffffffffffffffffffffffffffffffffffffffffffffffffffffffffffffffffffffffffffffffffffffffffffffffffffffffffffffffffffffffffffffffffffffffffffffffffffffffffffffffffffffffffffffffffffffffffffffffffffffffffffffffffffffffffffffffffffffffffffffffffffffffffffffffffffffffffffffffffffffffffffffffffffffffffffffffffffffffffffffffffffffffffffffffffffffffffffffffffffffffffffffffffffffffffffffffffff52006f006f007400200045006e00740072007900000000000000000000000000000000000000000000000000000000000000000000000000000000000000000016000501ffffffffffffffff010000000000000000000000000000000000000000000000c3b42fc5c38635b0401c5c7bb91e359e0100000080000000000000004f006e006c00790000000000000000000000000000000000000000000000000000000000000000000000000000000000000000000000000000000000000000000a000201ffffffffffffffffffffffff0000000000000000000000000000000000000000000000000000000000000000000000000000000064000000000000000000000000000000000000000000000000000000000000000000000000000000000000000000000000000000000000000000000000000000000000000000000000000000ffffffffffffffffffffffff0000000000000000000000000000000000000000000000000000000000000000000000000000000000000000000000000000000000000000000000000000000000000000000000000000000000000000000000000000000000000000000000000000000000000000000000000000000000000000ffffffffffffffffffffffff000000000000000000000000000000000000000000000000000000000000000000000000000000000000000000000000"%string.
Example sample_file_accepted : cfb_check sample_file = true.
Proof. vm_compute. reflexivity. Qed.
Example sample_file_valid : cfb_valid sample_file.
Proof. apply C18.Proofs.cfb_check_sound. vm_compute. reflexivity. Qed.
