(* C18/Properties.v — property theorems only. Each is closed by a lemma of C18/Proofs.v. *)
From Relic Require Import Base.Prelude Base.Enc Base.Hex Generated.C18_gen C18.Model C18.Proofs C18.DirModel C18.DirProofs.
From Coq Require Import Permutation String.

(* ---------------------------------------------------------------- (a) red-black insertion *)
(* 1. the repaired insertion (new nodes red, root blackened, same recursion as redblack.insert) keeps the tree a valid
      red-black tree: black root, no red node with a red child, equal black height on every path *)
Theorem rb_insert_valid : forall (A : Type) (lt : A -> A -> bool) a t,
  rb_valid A t -> rb_valid A (insert A lt true true a t).
Proof. exact C18.Proofs.rb_insert_valid. Qed.
Theorem rb_insert_all_valid : forall (A : Type) (lt : A -> A -> bool) l, rb_valid A (insert_all A lt true true l).
Proof. exact C18.Proofs.rb_insert_all_valid. Qed.

(* 2. search-tree order and contents are preserved by the insertion as coded AND as repaired (any colour flags),
      for every transitive comparator, when the new key differs from the keys present *)
Theorem rb_insert_bst : forall (A : Type) (lt : A -> A -> bool),
  (forall x y z, lt x y = true -> lt y z = true -> lt x z = true) ->
  forall nr br a t, bst A lt t -> fresh A lt a t -> bst A lt (insert A lt nr br a t).
Proof. exact C18.Proofs.bst_insert. Qed.
Theorem rb_insert_elements : forall (A : Type) (lt : A -> A -> bool) nr br a t,
  Permutation (elements A (insert A lt nr br a t)) (a :: elements A t).
Proof. exact C18.Proofs.elements_insert. Qed.
Theorem rb_insert_all_sound : forall (A : Type) (lt : A -> A -> bool),
  (forall x y z, lt x y = true -> lt y z = true -> lt x z = true) ->
  forall nr br l, pairwise_cmp A lt (rev l) ->
  bst A lt (insert_all A lt nr br l) /\ Permutation (elements A (insert_all A lt nr br l)) l.
Proof. exact C18.Proofs.insert_all_sound. Qed.

(* 3. the boolean checker used by the validator decides exactly the declarative notion *)
Theorem rb_ok_exact : forall (A : Type) (t : tree A), rb_ok A t = true <-> rb_valid A t.
Proof. exact C18.Proofs.rb_ok_iff. Qed.

(* 4. documented pre-fix witness (flags false/false = the code before fix f87d35e: nodes created black, root never
      recoloured): three ascending insertions are not a valid tree *)
Theorem rb_current_refuted : exists l : list Z, ~ rb_valid Z (insert_all Z Z.ltb false false l).
Proof. exact C18.Proofs.rb_current_refuted. Qed.
(* 5. LIVE: redblack.Tree.Insert as srcgen reads it now (colour of the node literal, `t.Root.Red = false`) always yields a
      valid red-black tree.  If either flag regresses this statement stops being provable. *)
Theorem rb_as_coded_valid : forall (A : Type) (lt : A -> A -> bool) l,
  rb_valid A (insert_all A lt rb_new_node_red rb_root_blackened l).
Proof. exact C18.Proofs.rb_as_coded_valid. Qed.

(* 6. the directory tree rebuilt with the repaired insertion under the MS-CFB name order passes the validator's tree
      conditions (15: order, 16: red-black) and contains exactly the given entries *)
Theorem rebuilt_tree_valid : forall ents files,
  pairwise_cmp Z (ent_lt ents) (rev files) ->
  let t := insert_all Z (ent_lt ents) true true files in
  bst_b Z (ent_lt ents) t = true /\ rb_ok Z t = true /\ Permutation (elements Z t) files.
Proof. exact C18.Proofs.rebuilt_tree_valid. Qed.

(* ---------------------------------------------------------------- (c) sector allocation *)
(* 7. makeFreeSectors: exactly count distinct ids, each free in the table it returns, the table only grows by free entries *)
Theorem alloc_fresh : forall ss count t fl t', 0 < count -> 0 < mfs_per_block ss -> make_free ss count t = (fl, t') ->
  zlen fl = count /\ NoDup fl /\ (exists k, t' = t ++ repeat secid_free k) /\
  Forall (fun j => 0 <= j < zlen t' /\ sget t' j = secid_free) fl.
Proof. exact C18.Proofs.make_free_spec. Qed.
(* 8. the chaining loop builds exactly the chain of the free list and touches nothing else *)
Theorem link_chain : forall fl t, fl <> [] -> NoDup fl -> Forall (fun j => 0 <= j < zlen t) fl ->
  schain (link t fl) (first_of fl) fl /\
  (forall j, 0 <= j -> ~ In j fl -> sget (link t fl) j = sget t j) /\ zlen (link t fl) = zlen t.
Proof. exact C18.Proofs.link_spec. Qed.
(* 9. addStream above the cutoff: a fresh chain of ceil(len/ss) sectors *)
Theorem add_stream_chain : forall ss len sat, 0 < len -> 0 < ss -> 0 < mfs_per_block ss ->
  exists fl sat1 k,
    sat1 = sat ++ repeat secid_free k /\
    add_stream_long ss len sat = Ok (first_of fl, link sat1 fl) /\
    zlen fl = ceil_div len ss /\ NoDup fl /\
    Forall (fun j => 0 <= j < zlen sat1 /\ sget sat1 j = secid_free) fl /\
    schain (link sat1 fl) (first_of fl) fl /\
    (forall j, 0 <= j -> ~ In j fl -> sget (link sat1 fl) j = sget sat1 j).
Proof. exact C18.Proofs.add_stream_long_spec. Qed.
(* 10. every chain that existed before is unchanged and disjoint from the new one *)
Theorem add_stream_keeps_chains : forall sat k fl s l,
  Forall (fun j => 0 <= j < zlen (sat ++ repeat secid_free k) /\ sget (sat ++ repeat secid_free k) j = secid_free) fl ->
  fl <> [] -> NoDup fl -> schain sat s l ->
  schain (link (sat ++ repeat secid_free k) fl) s l /\ (forall j, In j l -> ~ In j fl).
Proof. exact C18.Proofs.add_stream_keeps_chains. Qed.
(* 11. freeSectors frees exactly its own chain *)
Theorem delete_frees_only_own : forall t s l, schain t s l -> l <> [] ->
  exists t', free_sectors t s = Ok t' /\ zlen t' = zlen t /\
    (forall j, In j l -> sget t' j = secid_free) /\ (forall j, 0 <= j -> ~ In j l -> sget t' j = sget t j).
Proof. exact C18.Proofs.free_sectors_spec. Qed.
(* 12. a chain that reaches its end marker never repeats a sector *)
Theorem chain_acyclic : forall t s l, schain t s l -> NoDup l.
Proof. exact C18.Proofs.schain_NoDup. Qed.

(* ---------------------------------------------------------------- (b) the validator *)
(* 13. whatever cfb_check accepts is a valid compound file in the declarative sense of C18/Proofs.v (valid_with) *)
Theorem cfb_check_sound : forall b, cfb_check b = true -> cfb_valid b.
Proof. exact C18.Proofs.cfb_check_sound. Qed.

(* ---------------------------------------------------------------- directory order *)
(* 14. relic's lessDirEnt (NameLength, then upper-cased code units with the toolchain's unicode.ToUpper table) IS the MS-CFB
       sibling order on every pair of names whose code units lie in the agreement domain ... *)
Theorem relic_order_eq_cfb : forall a b, zlen a < name_runes -> zlen b < name_runes ->
  forallb unit_agrees a = true -> forallb unit_agrees b = true -> relic_less a b = cfb_less a b.
Proof. exact C18.Proofs.relic_less_eq_cfb_less. Qed.
(* ... and the domain is every code unit: relic's upperUnit (unicode.ToUpper of the toolchain as read by srcgen, surrogate halves
   untouched) equals the upper-casing of the MS-CFB order (Unicode Character Database table, C18/UnicodeSpec.v) *)
Theorem agreement_domain : forall u, unit_agrees u = true.
Proof. exact C18.Proofs.unit_agrees_all. Qed.
Theorem upper_unit_is_ucd_simple_upper : forall u, upper_unit u = upcase u.
Proof. exact C18.Proofs.upper_unit_is_upcase. Qed.
Theorem relic_order_is_cfb : forall a b, zlen a < name_runes -> zlen b < name_runes -> relic_less a b = cfb_less a b.
Proof. exact C18.Proofs.relic_less_is_cfb_less. Qed.
(* 15. the MS-CFB order is a strict order (what theorem 2 needs of the comparator) *)
Theorem cfb_order_strict : (forall a, cfb_less a a = false) /\
  (forall a b c, cfb_less a b = true -> cfb_less b c = true -> cfb_less a c = true).
Proof. split; [exact C18.Proofs.cfb_less_irrefl | exact C18.Proofs.cfb_less_trans]. Qed.

(* ---------------------------------------------------------------- (d) the children of the root storage: DeleteFile / AddFile / InsertMSISignature / rebuildTree
   Model: C18/DirModel.v (every comparison, constant, branch condition and statement-presence flag is a definition of Generated/C18_gen.v);
   specification: spec_unique / spec_same / spec_tree_ok of C18/DirModel.v Part D over cfb_less of C18/Model.v Part 3.
   valid_dir st = the directory of a valid compound file: every child of the root is an allocated entry with a well-formed name, no two
   children carry the same name under the MS-CFB comparison, the root storage is not its own child. *)
(* 16. lessDirEnt on two directory entries with well-formed names IS the MS-CFB order of the names they carry *)
Theorem ent_order_is_cfb_order : forall a b, wf_name a -> wf_name b -> ent_less a b = cfb_less (ent_units a) (ent_units b).
Proof. exact C18.DirProofs.ent_less_is_spec_less. Qed.
(* 17. lessDirEnt is a strict order on ALL entries (any NameLength, any code units), and "ordered neither way" is equality of the
       key (NameLength, upper-cased units the loop looks at): what the red-black tree needs of its comparator *)
Theorem ent_less_strict :
  (forall a, ent_less a a = false) /\
  (forall a b c, ent_less a b = true -> ent_less b c = true -> ent_less a c = true) /\
  (forall a b, ent_same a b = true <-> ekey a = ekey b).
Proof. exact (conj C18.DirProofs.ent_less_irrefl (conj C18.DirProofs.ent_less_trans C18.DirProofs.ent_same_iff)). Qed.
(* 18. DeleteFile(name): the result is again a valid directory; a name of more than 31 code units changes nothing; otherwise exactly
       the children carrying the name (MS-CFB comparison) are removed, they were streams and their entries are blanked, every other
       child is the same entry as before and does not carry the name *)
Theorem delete_file_spec : forall name st st', valid_dir st -> delete_file name st = Ok st' ->
  valid_dir st' /\ same_geometry st st' /\
  (fits name = false -> st' = st) /\
  (fits name = true ->
     d_root_files st' = kept_of name st /\
     (forall i, In i (d_root_files st') -> get_ent (d_files st') i = get_ent (d_files st) i /\
                                           spec_same (ent_units (get_ent (d_files st') i)) (ent_units (probe_of name)) = false) /\
     (forall i, In i (d_root_files st) -> ~ In i (d_root_files st') ->
                get_ent (d_files st') i = blank /\ f_type (get_ent (d_files st) i) = dir_stream /\
                spec_same (ent_units (get_ent (d_files st) i)) (ent_units (probe_of name)) = true)).
Proof. exact C18.DirProofs.delete_file_spec. Qed.
(* 19. AddFile(name, contents): the children that carried the name are gone, every other child is the same entry as before, exactly
       one new stream entry with that key and the given size is appended, and the state is well formed again (names unique) *)
Theorem add_file_spec : forall name len st st', wf st -> add_file name len st = Ok st' ->
  exists idx,
    fits name = true /\
    d_root_files st' = kept_of name st ++ [idx] /\ ~ In idx (kept_of name st) /\ idx <> d_root st /\ 0 <= idx < zlen (d_files st') /\
    ekey (get_ent (d_files st') idx) = ekey (probe_of name) /\ f_type (get_ent (d_files st') idx) = dir_stream /\
    f_size (get_ent (d_files st') idx) = len /\
    (forall i, In i (kept_of name st) -> get_ent (d_files st') i = get_ent (d_files st) i) /\
    same_geometry st st' /\ d_changed st' = true /\ wf st'.
Proof. exact C18.DirProofs.add_file_spec. Qed.
Theorem valid_dir_is_wf : forall st, valid_dir st <-> wf st.
Proof. exact C18.DirProofs.valid_dir_wf. Qed.
(* 20. every history of AddFile / DeleteFile / InsertMSISignature (any names, any sizes, any length) that succeeds leaves the names
       of the root's children unique *)
Theorem history_names_unique : forall ops st st', wf st -> run_ops ops st = Ok st' -> wf st'.
Proof. exact C18.DirProofs.run_ops_wf. Qed.
(* 21. InsertMSISignature: afterwards the root's children are, in order, the former children that carried neither signature name
       (same entries), then - only if an extended signature was given - ONE stream entry with the key of msiDigitalSignatureEx and
       len(exsig) bytes, then ONE stream entry with the key of msiDigitalSignature and len(pkcs) bytes; whatever carried one of the
       two names before, in any spelling, is gone *)
Theorem insert_sig_spec : forall pk ex st st', wf st -> insert_sig pk ex st = Ok st' ->
  wf st' /\ d_changed st' = true /\ same_geometry st st' /\
  (forall i, In i (others st) -> get_ent (d_files st') i = get_ent (d_files st) i) /\
  exists isig,
    ekey (get_ent (d_files st') isig) = ekey p_sig /\ f_type (get_ent (d_files st') isig) = dir_stream /\ f_size (get_ent (d_files st') isig) = pk /\
    if insert_has_exsig ex then
      exists iex, d_root_files st' = others st ++ [iex; isig] /\
        ekey (get_ent (d_files st') iex) = ekey p_ex /\ f_type (get_ent (d_files st') iex) = dir_stream /\ f_size (get_ent (d_files st') iex) = ex
    else d_root_files st' = others st ++ [isig].
Proof. exact C18.DirProofs.insert_sig_spec. Qed.
(* 21b. the pre-check: a refusal is returned before any AddFile / DeleteFile is evaluated, so the document is as it was; an entry
        that is not a stream, is listed in the root storage and carries one of the two signature names (comdoc.SameName) is refused *)
Theorem insert_sig_refusal_is_early : forall pk ex st e, precheck st = Err e -> insert_sig pk ex st = Err e.
Proof. exact C18.DirProofs.insert_sig_refusal. Qed.
Theorem storage_in_signature_slot_refused : forall pk ex st l i, list_root st = Ok l -> In i l -> sig_slot_blocked (d_files st) i = true ->
  insert_sig pk ex st = Err E_STORAGE.
Proof. exact C18.DirProofs.slot_blocked_refused. Qed.
(* 21c. ... and that early refusal is the ONLY storage refusal: when ListDir sees every child of the root (a document as opened: readDir
        fills rootFiles from ListDir(nil)) and the pre-check has passed, no AddFile / DeleteFile of the plan stops half-way with
        "can't delete or replace storages".  So a signing refused because of a storage leaves the document exactly as it was. *)
Theorem no_late_storage_refusal : forall pk ex st l, wf st -> list_root st = Ok l -> (forall i, In i (d_root_files st) -> In i l) ->
  precheck st = Ok tt -> insert_sig pk ex st <> Err E_STORAGE.
Proof. exact C18.DirProofs.no_late_storage_refusal. Qed.
(* 22. the tree rebuildTree builds: a search tree under lessDirEnt, a valid red-black tree, exactly the root's children, in-order
       strictly increasing (no duplicate keys) *)
Theorem rebuild_tree_valid : forall st, wf st ->
  let t := rebuild_tree (d_files st) (d_root_files st) in
  bst Z (idx_less (d_files st)) t /\ rb_valid Z t /\ Permutation (elements Z t) (d_root_files st) /\
  sorted_by (idx_less (d_files st)) (elements Z t).
Proof. exact C18.DirProofs.rebuild_tree_valid. Qed.
(* 23. the links rebuildTree writes into the entries read back as that tree *)
Theorem write_links_readback : forall t fs fuel, NoDup (elements Z t) -> Forall (fun i => 0 <= i < zlen fs) (elements Z t) ->
  (height t < fuel)%nat -> read_tree fuel (write_links t fs) (root_id t) = Some t.
Proof. exact C18.DirProofs.write_links_readback. Qed.
(* 24. after ANY successful history that changed the document and left the root non-empty, the names of the root's children are unique
       in the sense of [MS-CFB] and the directory Close leaves behind satisfies the specification of the root's tree: it reads back,
       is a valid red-black tree, its in-order names are strictly increasing in the MS-CFB order, it holds exactly the root's children *)
Theorem history_then_close : forall ops st st', valid_dir st -> run_ops ops st = Ok st' -> d_changed st' = true -> d_root_files st' <> [] ->
  spec_unique (root_names st') = true /\
  spec_tree_ok (d_files (close_dir st')) (f_child (get_ent (d_files (close_dir st')) (d_root st'))) (d_root_files st') = true.
Proof. exact C18.DirProofs.history_then_close. Qed.
(* 25. the same for one InsertMSISignature (no side conditions: it always changes the document and leaves a child) *)
Theorem sign_then_close : forall pk ex st st', valid_dir st -> insert_sig pk ex st = Ok st' ->
  spec_unique (root_names st') = true /\
  spec_tree_ok (d_files (close_dir st')) (f_child (get_ent (d_files (close_dir st')) (d_root st'))) (d_root_files st') = true.
Proof. exact C18.DirProofs.sign_then_close. Qed.
(* 26. replaced streams release their sectors: freeSectors frees exactly the chain it is given; DeleteFile on a valid directory removes
       at most one child and hands that stream's chain to freeSectors in the table its size selects, leaving the other table alone *)
Theorem free_sectors_exact : forall t s l, schain t s l ->
  zlen (go_free t s) = zlen t /\ (forall j, In j l -> sget (go_free t s) j = secid_free) /\
  (forall j, 0 <= j -> ~ In j l -> sget (go_free t s) j = sget t j).
Proof. exact C18.DirProofs.go_free_spec. Qed.
Theorem delete_releases : forall name st st', wf st -> delete_file name st = Ok st' -> fits name = true ->
  (existsb (matches (probe_of name) (d_files st)) (d_root_files st) = false -> d_sat st' = d_sat st /\ d_ssat st' = d_ssat st) /\
  (forall i, In i (d_root_files st) -> matches (probe_of name) (d_files st) i = true ->
     (d_sat st', d_ssat st') = freed_tables (d_cutoff st) (get_ent (d_files st) i) (d_sat st) (d_ssat st) /\
     d_root_files st' = filter (fun j => negb (j =? i)) (d_root_files st)).
Proof. exact C18.DirProofs.delete_releases. Qed.
(* 27. LIVE facts about the source as srcgen reads it: the tree descends right exactly when Less(node, new) holds; every error of
       DeleteFile / addStream / newDirEnt / AddFile is returned to the caller; the two signature names are ASCII *)
Theorem source_facts :
  (forall (X : Type) (lt : X -> X -> bool) x a, rb_descend_right lt x a = lt x a) /\
  addfile_delete_err_returned && addfile_stream_err_returned && addfile_dirent_err_returned &&
    insert_err0_returned && insert_err1_returned && insert_err2_returned = true /\
  forallb (fun b => (0 <=? b) && (b <? 128)) (msi_sig_name ++ msi_sigex_name) = true.
Proof. exact (conj C18.DirProofs.rb_descend_right_is_less (conj C18.DirProofs.errors_are_returned C18.DirProofs.sig_names_are_ascii)). Qed.

(* ---------------------------------------------------------------- non-vacuity *)
Example repaired_tree_is_valid : rb_ok Z (insert_all Z Z.ltb true true [5; 3; 8; 1; 4; 7; 9; 2; 6; 0]) = true.
Proof. vm_compute. reflexivity. Qed.
Example case_pair_now_ordered : relic_less [97] [66] = true /\ cfb_less [97] [66] = true.
Proof. vm_compute. split; reflexivity. Qed.
Example prefix_tree_was_a_list : insert_all Z Z.ltb false false [0; 1; 2] = T Black E 0 (T Black E 1 (T Black E 2 E)).
Proof. vm_compute. reflexivity. Qed.
Example alloc_example : make_free 512 3 [-3; 5; -1; -2; -1; -2] = ([2; 4; 6], [-3; 5; -1; -2; -1; -2] ++ repeat (-1) 128).
Proof. vm_compute. reflexivity. Qed.
Example add_stream_example :
  add_stream_long 512 1000 [-3; 5; -1; -2; -1; -2] = Ok (2, [-3; 5; 4; -2; -2; -2]).
Proof. vm_compute. reflexivity. Qed.
(* a complete compound file (512-byte sectors, one stream "Only" of 100 bytes in the mini stream) is accepted *)
Definition sample_file : bytes := hex "d0cf11e0a1b11ae1000000000000000000000000000000003e000300feff0900060000000000000000000000010000000300000000000000001000000200000001000000feffffff0000000000000000fffffffffffffffffffffffffffffffffffffffffffffffffffffffffffffffffffffffffffffffffffffffffffffffffffffffffffffffffffffffffffffffffffffffffffffffffffffffffffffffffffffffffffffffffffffffffffffffffffffffffffffffffffffffffffffffffffffffffffffffffffffffffffffffffffffffffffffffffffffffffffffffffffffffffffffffffffffffffffffffffffffffffffffffffffffffffffffffffffffffffffffffffffffffffffffffffffffffffffffffffffffffffffffffffffffffffffffffffffffffffffffffffffffffffffffffffffffffffffffffffffffffffffffffffffffffffffffffffffffffffffffffffffffffffffffffffffffffffffffffffffffffffffffffffffffffffffffffffffffffffffffffffffffffffffffffffffffffffffffffffffffffffffffffffffffffffffffffffffffffffffffffffffffffffffffffffffffffffffffffffffffffffffffffffffffffffffffffffffffffffffffffffffffffffffffffffffffffffffffffffffffffffffffffffffffffffffffffffffffffffffffffffffffffffffffffffdfffffffefffffffefffffffeffffffffffffffffffffffffffffffffffffffffffffffffffffffffffffffffffffffffffffffffffffffffffffffffffffffffffffffffffffffffffffffffffffffffffffffffffffffffffffffffffffffffffffffffffffffffffffffffffffffffffffffffffffffffffffffffffffffffffffffffffffffffffffffffffffffffffffffffffffffffffffffffffffffffffffffffffffffffffffffffffffffffffffffffffffffffffffffffffffffffffffffffffffffffffffffffffffffffffffffffffffffffffffffffffffffffffffffffffffffffffffffffffffffffffffffffffffffffffffffffffffffffffffffffffffffffffffffffffffffffffffffffffffffffffffffffffffffffffffffffffffffffffffffffffffffffffffffffffffffffffffffffffffffffffffffffffffffffffffffffffffffffffffffffffffffffffffffffffffffffffffffffffffffffffffffffffffffffffffffffffffffffffffffffffffffffffffffffffffffffffffffffffffffffffffffffffffffffffffffffffffffffffffffffffffffffffffffffffffffffffffffffffffffffffffffffffffffffffffffffffffffffffffffffffffffffffffffffffffffffffffffffffffffffffffffffffffffffffffffffffffffffffffffffffffffffffffffffffffff3f1a59bbaea4fa4cad88dc14f300c848b5636066652343d8ae82d4316b1b3a308d0f3da5639ce25a945e5cdf691704a522d505b4e699f505472fc407adc445cd1485bb1436facf072bb3b3d7861b828cc2da142e492615a58e14511ec4cd88238971e4cd0000000000000000000000000000000000000000000000000000000000000000000000000000000000000000000000000000000000000000000000000000000000000000000000000000000000000000000000000000000000000000000000000000000000000000000000000000000000000000000000000000000000000000000000000000000000000000000000000000000000000000000000000000000000000000000000000000000000000000000000000000000000000000000000000000000000000000000000000000000000000000000000000000000000000000000000000000000000000000000000000000000000000000000000000000000000000000000000000000000000000000000000000000000000000000000000000000000000000000000000000000000000000000000000000000000000000000000000000000000000000000000000000000000000000000000000000000000000000000000000000000000000000000000000000000000000000000000000000000000000000000000000000000000000000000000000000000000001000000feffffffffffffffffffffffffffffffffffffffffffffffffffffffffffffffffffffffffffffffffffffffffffffffffffffffffffffffffffffffffffffffffffffffffffffffffffffffffffffffffffffffffffffffffffffffffffffffffffffffffffffffffffffffffffffffffffffffffffffffffffffffffffffffffffffffffffffffffffffffffffffffffffffffffffffffffffffffffffffffffffffffffffffffffffffffffffffffffffffffffffffffffffffffffffffffffffffffffffffffffffffffffffffffffffffffffffffffffffffffffffffffffffffffffffffffffffffffffffffffffffffffffffffffffffffffffffffffffffffffffffffffffffffffffffffffffffffffffffffffffffffffffffffffffffffffffffffffffffffffffffffffffffffffffffffffffffffffffffffffffffffffffffffffffffffffffffffffffffffffffffffffffffffffffffffffffffffffffffffffffffffffffffffffffffffffffffffffffffffffffffffffffffffffffffffffffffffffffffffffffffffffffffffffffffffffffffffffffffffffffffffffffffffffffffffffffffffffffffffffffffffffffffffffffffffffffffffffffffffffffffffffffffffffffffffffffffffffffffffffffffffffffffffffffffffffffffffffffffffffffffffffffffffff52006f006f007400200045006e00740072007900000000000000000000000000000000000000000000000000000000000000000000000000000000000000000016000501ffffffffffffffff010000000000000000000000000000000000000000000000c3b42fc5c38635b0401c5c7bb91e359e0100000080000000000000004f006e006c00790000000000000000000000000000000000000000000000000000000000000000000000000000000000000000000000000000000000000000000a000201ffffffffffffffffffffffff0000000000000000000000000000000000000000000000000000000000000000000000000000000064000000000000000000000000000000000000000000000000000000000000000000000000000000000000000000000000000000000000000000000000000000000000000000000000000000ffffffffffffffffffffffff0000000000000000000000000000000000000000000000000000000000000000000000000000000000000000000000000000000000000000000000000000000000000000000000000000000000000000000000000000000000000000000000000000000000000000000000000000000000000000ffffffffffffffffffffffff000000000000000000000000000000000000000000000000000000000000000000000000000000000000000000000000"%string.
Example sample_file_accepted : cfb_check sample_file = true.
Proof. vm_compute. reflexivity. Qed.
Example sample_file_valid : cfb_valid sample_file.
Proof. apply C18.Proofs.cfb_check_sound. vm_compute. reflexivity. Qed.

(* a directory with a root (entry 0), a stream "\5digitalsignature" (entry 1, 5000 bytes at sector 3) and a stream "Other" (entry 2) *)
Definition ex_entry (name : list Z) (typ start size : Z) : dent :=
  mkDent (pad_runes (name ++ [0])) (2 * (zlen name + 1)) typ 1 (-1) (-1) (-1) start size.
Definition ex_state : dstate :=
  mkD [ex_entry [82; 111; 111; 116] 5 (-2) 0;
       ex_entry [5; 100; 105; 103; 105; 116; 97; 108; 115; 105; 103; 110; 97; 116; 117; 114; 101] 2 3 5000;
       ex_entry [79; 116; 104; 101; 114] 2 13 4096; blank]
      [1; 2] ([-3; -2; -2] ++ [4; 5; 6; 7; 8; 9; 10; 11; 12; -2] ++ [14; 15; 16; 17; 18; 19; 20; -2] ++ repeat (-1) 107) [] 0 512 64 4096 false.
Example ex_state_valid : valid_dir ex_state.
Proof.
  unfold valid_dir. split; [|split; [|split; [|split; [|split; [|split]]]]].
  - repeat constructor; vm_compute; try reflexivity; intros H; discriminate H.
  - repeat constructor; vm_compute; try reflexivity; intros H; discriminate H.
  - repeat constructor; vm_compute; intros H; discriminate H.
  - vm_compute. reflexivity.
  - vm_compute. intros [H|[H|[]]]; discriminate H.
  - vm_compute. split; [intros H; discriminate H | reflexivity].
  - vm_compute. intros H; discriminate H.
Qed.
(* signing it replaces the lower-case stream: the children are then Other, \5MsiDigitalSignatureEx (in the free entry 3) and
   \5DigitalSignature (in entry 1, which the replaced stream gave up together with its sectors 3..12) *)
Example ex_sign_names :
  match insert_sig 5000 4096 ex_state with
  | Ok st' => map (fun i => ent_units (get_ent (d_files st') i)) (d_root_files st') = [[79; 116; 104; 101; 114]; msi_sigex_name; msi_sig_name]
              /\ d_root_files st' = [2; 3; 1]
  | _ => False
  end.
Proof. vm_compute. split; reflexivity. Qed.
Example ex_sign_then_close_ok :
  match insert_sig 5000 4096 ex_state with
  | Ok st' => spec_tree_ok (d_files (close_dir st')) (f_child (get_ent (d_files (close_dir st')) (d_root st'))) (d_root_files st') = true
  | _ => False
  end.
Proof. vm_compute. reflexivity. Qed.
(* the specification does reject what the seeded change produced: two children whose names differ only in letter case *)
Example ex_duplicate_rejected :
  spec_unique [[5; 100; 105; 103; 105; 116; 97; 108; 115; 105; 103; 110; 97; 116; 117; 114; 101]; msi_sig_name] = false.
Proof. vm_compute. reflexivity. Qed.
(* dotless i (U+0131) upper-cases to I: "\5DıgitalSignature" is the signature name too, the Kelvin sign (U+212A) is not k *)
Example ex_dotless_i_same : spec_same [5; 68; 305; 103; 305; 116; 97; 108; 83; 305; 103; 110; 97; 116; 117; 114; 101] msi_sig_name = true
                            /\ spec_same [8490] [107] = false.
Proof. vm_compute. split; reflexivity. Qed.
(* a storage carrying the name makes DeleteFile refuse *)
Example ex_storage_refused :
  delete_file [79; 84; 72; 69; 82] (mkD [ex_entry [82] 5 (-2) 0; ex_entry [79; 116; 104; 101; 114] 1 0 0] [1] [] [] 0 512 64 4096 false) = Err E_STORAGE.
Proof. vm_compute. reflexivity. Qed.
(* InsertMSISignature refuses, before touching anything, a document whose root lists a STORAGE spelled like the signature stream
   (entry 1, "\5DIGITALSIGNATURE", reached from the root's child link); the same entry as a stream is replaced *)
Definition ex_slot_state (typ : Z) : dstate :=
  mkD [mkDent (pad_runes [82; 0]) 4 5 1 (-1) (-1) 1 (-2) 0;
       mkDent (pad_runes ([5; 68; 73; 71; 73; 84; 65; 76; 83; 73; 71; 78; 65; 84; 85; 82; 69] ++ [0])) 36 typ 1 (-1) (-1) (-1) 3 5000; blank; blank]
      [1] ([-3; -2; -2] ++ [4; 5; 6; 7; 8; 9; 10; 11; 12; -2] ++ repeat (-1) 115) [] 0 512 64 4096 false.
Example ex_storage_in_slot_refused :
  list_root (ex_slot_state 1) = Ok [1] /\ sig_slot_blocked (d_files (ex_slot_state 1)) 1 = true /\
  insert_sig 5000 4096 (ex_slot_state 1) = Err E_STORAGE /\ insert_sig 5000 0 (ex_slot_state 1) = Err E_STORAGE.
Proof. vm_compute. repeat split; reflexivity. Qed.
Example ex_stream_in_slot_replaced :
  match insert_sig 5000 0 (ex_slot_state 2) with
  | Ok st' => map (fun i => ent_units (get_ent (d_files st') i)) (d_root_files st') = [msi_sig_name]
  | _ => False
  end.
Proof. vm_compute. reflexivity. Qed.
