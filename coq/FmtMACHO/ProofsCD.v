(* FmtMACHO/ProofsCD.v — the CodeDirectory written by newCodeDirectory read back by the cs_blobs.h reader *)
From Relic Require Import Base.Prelude Base.Enc Generated.FmtMACHO_gen FmtMACHO.Model FmtMACHO.Proofs.

Lemma le_dec_enc_mod w : forall n, le_dec (le_enc w n) = n mod 256 ^ Z.of_nat w.
Proof.
  induction w as [|w IH]; intros n.
  - cbn. now rewrite Z.mod_1_r.
  - cbn [le_enc le_dec]. rewrite IH. rewrite Nat2Z.inj_succ, Z.pow_succ_r by lia.
    rewrite (Z.rem_mul_r n 256 (256 ^ Z.of_nat w)) by (try lia; apply Z.pow_pos_nonneg; lia). reflexivity.
Qed.
Lemma be_dec_enc_mod w n : be_dec (be_enc w n) = n mod 256 ^ Z.of_nat w.
Proof. unfold be_dec, be_enc. rewrite rev_involutive. apply le_dec_enc_mod. Qed.

Lemma rdw_skip a rest off w : zlen a <= off -> rdw off w (a ++ rest) = rdw (off - zlen a) w rest.
Proof.
  intros H. unfold rdw, zslice. rewrite zdrop_app_r by exact H. replace (off + w - off) with (off - zlen a + w - (off - zlen a)) by lia. reflexivity.
Qed.
Lemma rdw_here x rest w : zlen x = w -> rdw 0 w (x ++ rest) = be_dec x.
Proof. intros <-. unfold rdw. now rewrite (zslice_mid0 x rest). Qed.
Lemma rd32_rdw off l : rd32 off l = rdw off 4 l.
Proof. reflexivity. Qed.
Lemma zlen4 (a b c d : Z) : zlen [a; b; c; d] = 4. Proof. reflexivity. Qed.
Lemma zlen_be8 n : zlen (be_enc 8 n) = 8. Proof. now rewrite be_enc_zlen. Qed.

Ltac skip1 :=
  rewrite rdw_skip by (rewrite ?zlen_be32, ?zlen_be8, ?zlen4; lia); rewrite ?zlen_be32, ?zlen_be8, ?zlen4;
  match goal with |- context [rdw (?a - ?b) _ _] => let c := eval cbv in (a - b) in change (a - b) with c end.

Lemma cluster_0 (a b c d : Z) rest : rdw 0 1 ([a; b; c; d] ++ rest) = a.
Proof. unfold rdw, zslice, be_dec, ztake, zdrop. change (Z.to_nat (0 + 1 - 0)) with 1%nat. change (Z.to_nat 0) with 0%nat. cbn. lia. Qed.
Lemma cluster_1 (a b c d : Z) rest : rdw 1 1 ([a; b; c; d] ++ rest) = b.
Proof. unfold rdw, zslice, be_dec, ztake, zdrop. change (Z.to_nat (1 + 1 - 1)) with 1%nat. change (Z.to_nat 1) with 1%nat. cbn. lia. Qed.
Lemma cluster_3 (a b c d : Z) rest : rdw 3 1 ([a; b; c; d] ++ rest) = d.
Proof. unfold rdw, zslice, be_dec, ztake, zdrop. change (Z.to_nat (3 + 1 - 3)) with 1%nat. change (Z.to_nat 3) with 3%nat. cbn. lia. Qed.

Section HdrFields.
  Variable h : cdhdr.
  Variable r : bytes.
  Let B := hdr_bytes h ++ r.
  Lemma B_form : B = be32 (h_magic h) ++ be32 (h_length h) ++ be32 (h_version h) ++ be32 (h_flags h) ++ be32 (h_hashoff h) ++ be32 (h_identoff h) ++
    be32 (h_nspecial h) ++ be32 (h_ncode h) ++ be32 (h_limit h) ++ [wrap8 (h_hashsize h); wrap8 (h_hashtype h); 0; wrap8 (h_pagesize h)] ++
    be32 0 ++ be32 (h_scatter h) ++ be32 (h_teamoff h) ++ be32 0 ++ be_enc 8 (h_limit64 h) ++ be_enc 8 (h_esbase h) ++
    be_enc 8 (h_eslimit h) ++ be_enc 8 (h_esflags h) ++ r.
  Proof. unfold B, hdr_bytes. rewrite <- !app_assoc. reflexivity. Qed.
  Lemma zlen_hdr : zlen (hdr_bytes h) = 88.
  Proof. unfold hdr_bytes. rewrite !zlen_app, !zlen_be32, !zlen_be8, zlen4. reflexivity. Qed.
  Lemma f32 n : 0 <= n < 4294967296 -> be_dec (be32 n) = n.
  Proof. intros Hn. unfold be32. apply be_dec_enc. exact Hn. Qed.
  Lemma fld_magic : 0 <= h_magic h < 4294967296 -> rd32 0 B = h_magic h.
  Proof. intros Hr. rewrite B_form, rd32_rdw, rdw_here by apply zlen_be32. now apply f32. Qed.
  Lemma fld_length : 0 <= h_length h < 4294967296 -> rd32 4 B = h_length h.
  Proof. intros Hr. rewrite B_form, rd32_rdw. do 1 skip1. rewrite rdw_here by apply zlen_be32. now apply f32. Qed.
  Lemma fld_version : 0 <= h_version h < 4294967296 -> rd32 8 B = h_version h.
  Proof. intros Hr. rewrite B_form, rd32_rdw. do 2 skip1. rewrite rdw_here by apply zlen_be32. now apply f32. Qed.
  Lemma fld_flags : 0 <= h_flags h < 4294967296 -> rd32 12 B = h_flags h.
  Proof. intros Hr. rewrite B_form, rd32_rdw. do 3 skip1. rewrite rdw_here by apply zlen_be32. now apply f32. Qed.
  Lemma fld_hashoff : 0 <= h_hashoff h < 4294967296 -> rd32 16 B = h_hashoff h.
  Proof. intros Hr. rewrite B_form, rd32_rdw. do 4 skip1. rewrite rdw_here by apply zlen_be32. now apply f32. Qed.
  Lemma fld_identoff : 0 <= h_identoff h < 4294967296 -> rd32 20 B = h_identoff h.
  Proof. intros Hr. rewrite B_form, rd32_rdw. do 5 skip1. rewrite rdw_here by apply zlen_be32. now apply f32. Qed.
  Lemma fld_nspecial : 0 <= h_nspecial h < 4294967296 -> rd32 24 B = h_nspecial h.
  Proof. intros Hr. rewrite B_form, rd32_rdw. do 6 skip1. rewrite rdw_here by apply zlen_be32. now apply f32. Qed.
  Lemma fld_ncode : 0 <= h_ncode h < 4294967296 -> rd32 28 B = h_ncode h.
  Proof. intros Hr. rewrite B_form, rd32_rdw. do 7 skip1. rewrite rdw_here by apply zlen_be32. now apply f32. Qed.
  Lemma fld_limit : 0 <= h_limit h < 4294967296 -> rd32 32 B = h_limit h.
  Proof. intros Hr. rewrite B_form, rd32_rdw. do 8 skip1. rewrite rdw_here by apply zlen_be32. now apply f32. Qed.
  Lemma fld_hashsize : 0 <= h_hashsize h < 256 -> rdw 36 1 B = h_hashsize h.
  Proof. intros Hr. rewrite B_form. do 9 skip1. rewrite cluster_0. unfold wrap8. apply Z.mod_small. exact Hr. Qed.
  Lemma fld_hashtype : 0 <= h_hashtype h < 256 -> rdw 37 1 B = h_hashtype h.
  Proof. intros Hr. rewrite B_form. do 9 skip1. rewrite cluster_1. unfold wrap8. apply Z.mod_small. exact Hr. Qed.
  Lemma fld_pagesize : 0 <= h_pagesize h < 256 -> rdw 39 1 B = h_pagesize h.
  Proof. intros Hr. rewrite B_form. do 9 skip1. rewrite cluster_3. unfold wrap8. apply Z.mod_small. exact Hr. Qed.
  Lemma fld_teamoff : 0 <= h_teamoff h < 4294967296 -> rd32 48 B = h_teamoff h.
  Proof. intros Hr. rewrite B_form, rd32_rdw. do 12 skip1. rewrite rdw_here by apply zlen_be32. now apply f32. Qed.
  Lemma fld_limit64 : rdw 56 8 B = h_limit64 h mod 18446744073709551616.
  Proof. rewrite B_form. do 14 skip1. rewrite rdw_here by apply zlen_be8. apply be_dec_enc_mod. Qed.
  Lemma fld_esbase : rdw 64 8 B = h_esbase h mod 18446744073709551616.
  Proof. rewrite B_form. do 15 skip1. rewrite rdw_here by apply zlen_be8. apply be_dec_enc_mod. Qed.
  Lemma fld_eslimit : rdw 72 8 B = h_eslimit h mod 18446744073709551616.
  Proof. rewrite B_form. do 16 skip1. rewrite rdw_here by apply zlen_be8. apply be_dec_enc_mod. Qed.
  Lemma fld_esflags : rdw 80 8 B = h_esflags h mod 18446744073709551616.
  Proof. rewrite B_form. do 17 skip1. rewrite rdw_here by apply zlen_be8. apply be_dec_enc_mod. Qed.
End HdrFields.

(* ------------------------------------------------------------------ strings and slots *)
Lemma spec_cstr_app s r : Forall (fun c => c <> 0) s -> spec_cstr (s ++ 0 :: r) = Some s.
Proof.
  induction 1 as [|c s Hc Hs IH]; cbn [app spec_cstr]; [reflexivity|].
  rewrite (proj2 (Z.eqb_neq c 0)) by exact Hc. now rewrite IH.
Qed.
Lemma spec_slots_fwd : forall n pre l post base hs, base = zlen pre -> 0 < hs -> Z.of_nat n * hs <= zlen l ->
  spec_slots n base hs hs (pre ++ l ++ post) = split_slots n hs l.
Proof.
  induction n as [|n IH]; intros pre l post base hs Hb Hh Hl; [reflexivity|].
  cbn [spec_slots split_slots]. rewrite Nat2Z.inj_succ in Hl. subst base.
  assert (Hl' : hs <= zlen l) by nia.
  f_equal.
  - rewrite <- (ztake_zdrop hs l) at 1. rewrite <- app_assoc. apply zslice_mid; [reflexivity|]. rewrite zlen_ztake by lia. reflexivity.
  - rewrite <- (ztake_zdrop hs l) at 1. rewrite <- (app_assoc (ztake hs l)). rewrite (app_assoc pre).
    apply IH; [rewrite zlen_app, zlen_ztake by lia; reflexivity|exact Hh|rewrite zlen_zdrop by lia; nia].
Qed.
Lemma spec_slots_bwd : forall bs pre post hs, Forall (fun b => zlen b = hs) bs -> 0 < hs ->
  spec_slots (length bs) (zlen pre + zlen (concat bs) - hs) (- hs) hs (pre ++ concat bs ++ post) = rev bs.
Proof.
  induction bs as [|x bs IH] using rev_ind; intros pre post hs Hf Hh; [reflexivity|].
  apply Forall_app in Hf as [Hf Hx]. inversion Hx as [|? ? Hxl _]; subst.
  rewrite app_length, Nat.add_1_r, rev_app_distr. cbn [rev app spec_slots]. rewrite concat_app. cbn [concat]. rewrite app_nil_r, zlen_app.
  f_equal.
  - rewrite <- !app_assoc. rewrite (app_assoc pre). apply zslice_mid; [rewrite zlen_app; lia|rewrite zlen_app; lia].
  - replace (zlen pre + (zlen (concat bs) + zlen x) - zlen x + - zlen x) with (zlen pre + zlen (concat bs) - zlen x) by lia.
    rewrite <- !app_assoc. apply IH; assumption.
Qed.
Lemma hash_type_cases h ht : lookup h cs_hash_type_of = Some ht -> (h = 3 /\ ht = 1) \/ (h = 5 /\ ht = 2) \/ (h = 6 /\ ht = 4).
Proof.
  unfold cs_hash_type_of. cbn [lookup].
  destruct (Z.eq_dec h 3) as [->|N3]; [intros [= <-]; auto|]. rewrite (proj2 (Z.eqb_neq 3 h)) by lia.
  destruct (Z.eq_dec h 5) as [->|N5]; [intros [= <-]; auto|]. rewrite (proj2 (Z.eqb_neq 5 h)) by lia.
  destruct (Z.eq_dec h 6) as [->|N6]; [intros [= <-]; auto|]. rewrite (proj2 (Z.eqb_neq 6 h)) by lia. discriminate.
Qed.
Lemma ssb_len H h s : (forall x, zlen (H h x) = go_hash_size h) -> 0 <= go_hash_size h -> zlen (special_slot_bytes H h s) = go_hash_size h.
Proof. intros HH H0. unfold special_slot_bytes, cd_special_present. destruct s; [apply HH|now apply zlen_zeros]. Qed.
Lemma concat_len_const (bs : list bytes) hs : Forall (fun b => zlen b = hs) bs -> zlen (concat bs) = zlen bs * hs.
Proof. induction 1 as [|b bs Hb Hf IH]; [reflexivity|]. cbn [concat]. rewrite zlen_app, zlen_cons, IH, Hb. lia. Qed.

(* ------------------------------------------------------------------ the theorem *)
Lemma layout_ok : cdh_layout_ok && cd_writes_ok = true. Proof. reflexivity. Qed.
Theorem cd_spec_reader H p : cd_wf H p -> exists ht raw,
  lookup (cp_hash p) cs_hash_type_of = Some ht /\
  new_code_directory H p = Ok (raw, H (cp_hash p) raw) /\ spec_cd_read raw = Some (cd_expected_view H p ht) /\
  rd32 4 raw = zlen raw /\
  rd32 16 raw = 88 + (zlen (cp_ident p) + 1) + (match cp_team p with [] => 0 | _ => zlen (cp_team p) + 1 end) + zlen (cp_specials p) * go_hash_size (cp_hash p) /\
  rd32 20 raw = 88 /\ rd32 48 raw = (match cp_team p with [] => 0 | _ => 88 + (zlen (cp_ident p) + 1) end).
Proof.
  intros [[ht [Hht Hht8]] [HI [HT [Hfl [Hnc [Hcs [Hcl [HH Htot]]]]]]]].
  exists ht. exists (hdr_bytes (cd_header p ht) ++ cd_body H p). split; [exact Hht|].
  split; [unfold new_code_directory; rewrite Hht, layout_ok; reflexivity|].
  set (h := cp_hash p) in *. set (hs := go_hash_size h) in *.
  assert (Hhs : hs = 20 \/ hs = 32 \/ hs = 48).
  { destruct (hash_type_cases _ _ Hht) as [[E _]|[[E _]|[E _]]]; unfold hs; rewrite E; cbn; auto. }
  assert (Hhs0 : 0 < hs < 256) by lia.
  set (I := cp_ident p) in *. set (T := cp_team p) in *. set (C := cp_code_slots p) in *.
  set (SPs := map (special_slot_bytes H h) (cp_specials p)).
  assert (HSPf : Forall (fun b => zlen b = hs) SPs).
  { unfold SPs. apply Forall_forall. intros b Hb. apply in_map_iff in Hb as [s [<- _]]. apply ssb_len; [exact HH|fold hs; lia]. }
  assert (HSPl : zlen (concat SPs) = zlen (cp_specials p) * hs).
  { rewrite (concat_len_const SPs hs HSPf). unfold SPs, zlen. now rewrite map_length. }
  pose proof (zlen_nonneg I) as HI0. pose proof (zlen_nonneg T) as HT0. pose proof (zlen_nonneg (cp_specials p)) as HS0. pose proof (zlen_nonneg C) as HC0.
  assert (Hteam : cd_has_team T = match T with [] => false | _ => true end) by (unfold cd_has_team; destruct T; reflexivity).
  set (tl := match T with [] => 0 | _ => zlen T + 1 end).
  assert (Htl : 0 <= tl <= zlen T + 1) by (unfold tl; destruct T; [lia|rewrite zlen_cons in *; lia]).
  set (tpart := if cd_has_team T then T ++ [0] else []).
  assert (Htp : zlen tpart = tl) by (unfold tpart, tl; rewrite Hteam; destruct T; [reflexivity|rewrite zlen_app; reflexivity]).
  set (hdr := cd_header p ht).
  set (body := cd_body H p).
  assert (Hbody : body = I ++ [0] ++ tpart ++ concat SPs ++ C) by reflexivity.
  assert (Hbl : zlen body = (zlen I + 1) + tl + zlen (cp_specials p) * hs + zlen C).
  { rewrite Hbody, !zlen_app, Htp, HSPl. change (zlen [0]) with 1. lia. }
  set (off2 := 88 + (zlen I + 1) + tl).
  (* header values *)
  assert (Voff2 : (if cd_has_team T then cd_off_after_team (cd_off_after_ident cd_off0 (zlen I)) (zlen T) else cd_off_after_ident cd_off0 (zlen I)) = off2).
  { unfold cd_off_after_team, cd_off_after_ident, cd_off0, off2, tl. change cdh_size with 88. rewrite Hteam. destruct T; lia. }
  assert (Vlen : h_length hdr = 88 + zlen body).
  { unfold hdr, cd_header. cbn [h_length]. fold h hs I T C. rewrite Voff2. unfold cd_length, cd_off_after_slots. rewrite wrap32_small; [rewrite Hbl; unfold off2; lia|].
    unfold off2. split; [lia|]. unfold hs, h, I, T, C in *. lia. }
  assert (Vhoff : h_hashoff hdr = off2 + zlen (cp_specials p) * hs).
  { unfold hdr, cd_header. cbn [h_hashoff]. fold h hs I T C. rewrite Voff2. unfold cd_hash_off, cd_init_nspecial, cd_init_hashsize, wrap8.
    rewrite (Z.mod_small hs 256) by lia. rewrite !(wrap32_small hs) by lia. rewrite (wrap32_small (zlen (cp_specials p))) by (unfold hs, h, I, T, C in *; nia).
    rewrite (wrap32_small off2) by (unfold off2, hs, h, I, T, C in *; lia). apply wrap32_small. unfold off2, hs, h, I, T, C in *. lia. }
  assert (Vioff : h_identoff hdr = 88) by reflexivity.
  assert (Vtoff : h_teamoff hdr = match T with [] => 0 | _ => 88 + (zlen I + 1) end).
  { unfold hdr, cd_header. cbn [h_teamoff]. fold T I. rewrite Hteam. destruct T; [reflexivity|].
    unfold cd_team_off, cd_off_after_ident, cd_off0. change cdh_size with 88. apply wrap32_small. unfold hs, h, I, C in *. lia. }
  assert (Vnsp : h_nspecial hdr = zlen (cp_specials p)).
  { unfold hdr, cd_header. cbn [h_nspecial]. unfold cd_init_nspecial. apply wrap32_small. unfold hs, h, I, T, C in *. nia. }
  assert (Vnc : h_ncode hdr = cp_ncode p) by reflexivity.
  assert (Vhs : h_hashsize hdr = hs).
  { unfold hdr, cd_header. cbn [h_hashsize]. fold h hs. unfold cd_init_hashsize, wrap8. apply Z.mod_small. lia. }
  assert (Vht : h_hashtype hdr = ht) by reflexivity.
  assert (Vfl : h_flags hdr = cp_flags p) by reflexivity.
  set (es := negb ((cp_es_base p =? 0) && (cp_es_limit p =? 0) && (cp_es_flags p =? 0))).
  assert (Vver : h_version hdr = if es then 132096 else 131840).
  { unfold hdr, cd_header. cbn [h_version]. unfold cd_has_execseg, cd_init_es_base, cd_init_es_limit, cd_init_es_flags, es.
    destruct (cp_es_base p =? 0), (cp_es_limit p =? 0), (cp_es_flags p =? 0); reflexivity. }
  assert (Vps : h_pagesize hdr = if cp_single p then 0 else 12).
  { unfold hdr, cd_header. cbn [h_pagesize]. unfold cd_is_single_page. destruct (cp_single p); reflexivity. }
  set (is64 := cd_limit_is64 (cp_code_limit p)).
  assert (Vlim : h_limit hdr = if is64 then 0 else cp_code_limit p).
  { unfold hdr, cd_header. cbn [h_limit]. fold is64. destruct is64 eqn:E; [reflexivity|]. unfold cd_limit32_val. apply wrap32_small.
    unfold is64, cd_limit_is64 in E. change (Z.shiftl 1 31) with 2147483648 in E. lia. }
  assert (Vl64 : h_limit64 hdr = if is64 then cp_code_limit p else 0).
  { unfold hdr, cd_header. cbn [h_limit64]. fold is64. destruct is64; reflexivity. }
  assert (Hraw : zlen (hdr_bytes hdr ++ body) = 88 + zlen body) by (rewrite zlen_app, zlen_hdr; reflexivity).
  assert (Hncb : 0 <= cp_ncode p < 4294967296) by (unfold hs, h, I, T, C in *; nia).
  (* the reader *)
  assert (R4 : rd32 4 (hdr_bytes hdr ++ body) = 88 + zlen body) by (rewrite fld_length; [exact Vlen|rewrite Vlen, Hbl; unfold hs, h, I, T, C in *; lia]).
  assert (R16 : rd32 16 (hdr_bytes hdr ++ body) = off2 + zlen (cp_specials p) * hs) by (rewrite fld_hashoff; [exact Vhoff|rewrite Vhoff; unfold off2, hs, h, I, T, C in *; lia]).
  assert (R20 : rd32 20 (hdr_bytes hdr ++ body) = 88) by (rewrite fld_identoff; [exact Vioff|rewrite Vioff; lia]).
  assert (R48 : rd32 48 (hdr_bytes hdr ++ body) = match T with [] => 0 | _ => 88 + (zlen I + 1) end).
  { rewrite fld_teamoff; [exact Vtoff|rewrite Vtoff]. destruct T; [lia|]. unfold hs, h, I, C in *. lia. }
  split; [|split; [rewrite R4, Hraw; reflexivity|split; [rewrite R16; unfold off2, tl; fold I T hs h; lia|split; [exact R20|exact R48]]]].
  unfold spec_cd_read. rewrite Hraw.
  replace (88 + zlen body <? 44) with false by (pose proof (zlen_nonneg body); lia).
  rewrite fld_magic by (change (h_magic hdr) with 4208856066; lia). change (h_magic hdr =? 4208856066) with true. cbn [negb].
  rewrite fld_version by (rewrite Vver; destruct es; lia). rewrite Vver.
  assert (Hneed : ((88 + zlen body <? (if (if es then 132096 else 131840) <? 131328 then 44 else if (if es then 132096 else 131840) <? 131584 then 48
       else if (if es then 132096 else 131840) <? 131840 then 52 else if (if es then 132096 else 131840) <? 132096 then 64 else 88)) || negb (rd32 4 (hdr_bytes hdr ++ body) =? 88 + zlen body)) = false).
  { rewrite R4, Z.eqb_refl. cbn [negb]. rewrite orb_false_r. pose proof (zlen_nonneg body). destruct es.
    - change (132096 <? 131328) with false. change (132096 <? 131584) with false. change (132096 <? 131840) with false. change (132096 <? 132096) with false. cbv iota. lia.
    - change (131840 <? 131328) with false. change (131840 <? 131584) with false. change (131840 <? 131840) with false. change (131840 <? 132096) with true. cbv iota. lia. }
  rewrite Hneed. rewrite R16, fld_nspecial by (rewrite Vnsp; unfold hs, h, I, T, C in *; nia). rewrite fld_ncode by (rewrite Vnc; exact Hncb).
  rewrite fld_hashsize by (rewrite Vhs; lia). rewrite Vnsp, Vnc, Vhs.
  replace ((hs =? 0) || (off2 + zlen (cp_specials p) * hs <? zlen (cp_specials p) * hs) || (88 + zlen body <? off2 + zlen (cp_specials p) * hs + cp_ncode p * hs)) with false
    by (rewrite Hbl; unfold off2; fold C in Hcs; lia).
  rewrite R20.
  (* identifier *)
  assert (Hid : spec_cstr (zdp 88 (hdr_bytes hdr ++ body)) = Some I).
  { rewrite zdp_eq. replace 88 with (zlen (hdr_bytes hdr)) by apply zlen_hdr. rewrite zdrop_app_exact, Hbody. cbn [app]. apply spec_cstr_app. exact HI. }
  rewrite Hid.
  (* team *)
  assert (Htm : (if (131584 <=? (if es then 132096 else 131840)) && negb (rd32 48 (hdr_bytes hdr ++ body) =? 0) then spec_cstr (zdp (rd32 48 (hdr_bytes hdr ++ body)) (hdr_bytes hdr ++ body)) else None)
                = match T with [] => None | _ => Some T end).
  { rewrite R48. replace (131584 <=? (if es then 132096 else 131840)) with true by (destruct es; reflexivity). cbn [andb].
    destruct T as [|t0 T'] eqn:ET; [reflexivity|]. replace (88 + (zlen I + 1) =? 0) with false by lia. cbn [negb].
    rewrite zdp_eq. rewrite Hbody. unfold tpart. rewrite Hteam. 
    replace (hdr_bytes hdr ++ I ++ [0] ++ ((t0 :: T') ++ [0]) ++ concat SPs ++ C) with ((hdr_bytes hdr ++ I ++ [0]) ++ (t0 :: T') ++ 0 :: concat SPs ++ C)
      by (rewrite <- !app_assoc; reflexivity).
    replace (88 + (zlen I + 1)) with (zlen (hdr_bytes hdr ++ I ++ [0])) by (rewrite !zlen_app, zlen_hdr; reflexivity).
    rewrite zdrop_app_exact. apply spec_cstr_app. exact HT. }
  rewrite Htm.
  (* limit *)
  assert (Hlim : (if (if 131840 <=? (if es then 132096 else 131840) then rdw 56 8 (hdr_bytes hdr ++ body) else 0) =? 0 then rd32 32 (hdr_bytes hdr ++ body)
                  else (if 131840 <=? (if es then 132096 else 131840) then rdw 56 8 (hdr_bytes hdr ++ body) else 0)) = cp_code_limit p).
  { replace (131840 <=? (if es then 132096 else 131840)) with true by (destruct es; reflexivity).
    rewrite fld_limit64, Vl64. rewrite fld_limit by (rewrite Vlim; destruct is64 eqn:E; [lia|]; unfold is64, cd_limit_is64 in E; change (Z.shiftl 1 31) with 2147483648 in E; lia).
    rewrite Vlim. destruct is64 eqn:E.
    - rewrite Z.mod_small by lia. unfold is64, cd_limit_is64 in E. change (Z.shiftl 1 31) with 2147483648 in E. replace (cp_code_limit p =? 0) with false by lia. reflexivity.
    - reflexivity. }
  rewrite Hlim.
  rewrite fld_flags by (rewrite Vfl; exact Hfl). rewrite fld_pagesize by (rewrite Vps; destruct (cp_single p); lia). rewrite fld_hashtype by (rewrite Vht; exact Hht8).
  rewrite Vfl, Vps, Vht.
  (* slots *)
  assert (Hsp : spec_slots (Z.to_nat (zlen (cp_specials p))) (off2 + zlen (cp_specials p) * hs - hs) (- hs) hs (hdr_bytes hdr ++ body) = rev SPs).
  { replace (Z.to_nat (zlen (cp_specials p))) with (length SPs) by (unfold SPs, zlen; rewrite map_length, Nat2Z.id; reflexivity).
    rewrite Hbody.
    replace (hdr_bytes hdr ++ I ++ [0] ++ tpart ++ concat SPs ++ C) with ((hdr_bytes hdr ++ I ++ [0] ++ tpart) ++ concat SPs ++ C) by (rewrite <- !app_assoc; reflexivity).
    replace (off2 + zlen (cp_specials p) * hs - hs) with (zlen (hdr_bytes hdr ++ I ++ [0] ++ tpart) + zlen (concat SPs) - hs)
      by (rewrite !zlen_app, zlen_hdr, Htp, HSPl; unfold off2; change (zlen [0]) with 1; lia).
    apply spec_slots_bwd; [exact HSPf|lia]. }
  rewrite Hsp.
  assert (Hcd : spec_slots (Z.to_nat (cp_ncode p)) (off2 + zlen (cp_specials p) * hs) hs hs (hdr_bytes hdr ++ body) = split_slots (Z.to_nat (cp_ncode p)) hs C).
  { rewrite Hbody.
    replace (hdr_bytes hdr ++ I ++ [0] ++ tpart ++ concat SPs ++ C) with ((hdr_bytes hdr ++ I ++ [0] ++ tpart ++ concat SPs) ++ C ++ []) by (rewrite app_nil_r, <- !app_assoc; reflexivity).
    apply spec_slots_fwd; [rewrite !zlen_app, zlen_hdr, Htp, HSPl; unfold off2; change (zlen [0]) with 1; lia|lia|].
    rewrite Z2Nat.id by lia. fold C in Hcs. lia. }
  rewrite Hcd.
  unfold cd_expected_view. fold h hs I T C SPs es. f_equal. f_equal.
  destruct es; [|reflexivity]. cbn [Z.leb]. rewrite fld_esbase, fld_eslimit, fld_esflags. reflexivity.
Qed.
