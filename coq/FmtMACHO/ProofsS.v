(* FmtMACHO/ProofsS.v — Sign assembles what it signs; what Verify and VerifyPages guarantee; witnesses of what they do not *)
From Relic Require Import Base.Prelude Base.Enc FmtMACHO.VpLang Generated.FmtMACHO_gen FmtMACHO.Model FmtMACHO.Proofs FmtMACHO.ProofsCD.
From Relic Require FmtMACHO.ProofsVP.
From Relic Require C09.Model C09.Proofs.

Lemma sign_layout : sign_layout_ok = true. Proof. reflexivity. Qed.
Lemma ncd_digest H p raw dg : new_code_directory H p = Ok (raw, dg) -> dg = H (cp_hash p) raw.
Proof.
  unfold new_code_directory. destruct (lookup _ _); [|discriminate]. rewrite layout_ok. cbn [negb]. intros [= <- <-]. reflexivity.
Qed.

(* the type of the k-th directory item *)
Definition dir_itype (k : Z) : Z := if sign_is_first_cd k then sign_first_itype else sign_alt_itype k.
Fixpoint dir_types (i : Z) (n : nat) : list Z := match n with O => [] | S m => dir_itype i :: dir_types (i + 1) m end.

Lemma sign_dirs_facts H p sp stream : forall hfs i its attr pls first,
  sign_dirs H p sp stream i hfs = Ok (its, attr, pls, first) ->
  length its = length hfs /\
  attr = map (fun hi => (fst hi, H (fst hi) (si_data (snd hi)))) (combine hfs its) /\
  pls = map (fun a => ztake sign_plist_trunc (snd a)) attr /\
  map si_type its = dir_types i (length hfs) /\
  Forall (fun it => si_magic it = cs_magic_codedirectory) its /\
  (i = 0 -> first = match its with it :: _ => si_data it | [] => [] end).
Proof.
  induction hfs as [|h r IH]; intros i its attr pls first; cbn [sign_dirs].
  - intros [= <- <- <- <-]. repeat split; constructor.
  - destruct (hash_pages H h _ stream) as [[slots count] limit].
    destruct (new_code_directory H _) as [[raw dg]| |] eqn:En; cbn [bind]; try discriminate.
    destruct (sign_dirs H p sp stream (i + 1) r) as [[[[its' attr'] pls'] first']| |] eqn:Er; cbn [bind]; try discriminate.
    intros [= <- <- <- <-]. destruct (IH _ _ _ _ _ Er) as [Hl [Ha [Hp [Ht [Hm Hf]]]]].
    apply ncd_digest in En. cbn [cp_hash fst snd] in En. subst dg.
    repeat split.
    + cbn [length]. now rewrite Hl.
    + cbn [combine map fst snd si_data]. now rewrite <- Ha.
    + cbn [map snd]. now rewrite <- Hp.
    + cbn [map length dir_types si_type]. unfold dir_itype. now rewrite Ht.
    + constructor; [reflexivity|exact Hm].
    + intros ->. change (sign_is_first_cd 0) with true. reflexivity.
Qed.

(* C01 C02 C05: what is handed to the PKCS#7 builder is exactly the emitted slot 0 directory; every emitted directory's digest is in the
   signed attribute, its first 20 bytes in the plist attribute; alternates sit in slots 0x1000, 0x1001, ... *)
Theorem cdhash_is_emitted H hfs p stream pl : sign_plan H hfs p stream = Ok pl ->
  exists dirs others, pl_items pl = dirs ++ others /\ length dirs = length hfs /\
    map si_type dirs = dir_types 0 (length hfs) /\ Forall (fun it => si_magic it = cs_magic_codedirectory) dirs /\
    pl_content pl = match dirs with it :: _ => si_data it | [] => [] end /\
    pl_attr pl = map (fun hi => (fst hi, H (fst hi) (si_data (snd hi)))) (combine hfs dirs) /\
    pl_plist pl = map (fun a => ztake 20 (snd a)) (pl_attr pl).
Proof.
  unfold sign_plan. rewrite sign_layout. cbn [negb].
  destruct (match sp_req p with Some v => _ | None => Ok None end) as [req| |]; cbn [bind]; try discriminate.
  destruct (sign_dirs H p _ stream 0 hfs) as [[[[its attr] pls] first]| |] eqn:Ed; cbn [bind]; try discriminate.
  intros [= <-]. destruct (sign_dirs_facts _ _ _ _ _ _ _ _ _ _ Ed) as [Hl [Ha [Hp [Ht [Hm Hf]]]]].
  exists its. eexists. cbn [pl_items pl_content pl_attr pl_plist].
  split; [reflexivity|]. split; [exact Hl|]. split; [exact Ht|]. split; [exact Hm|]. split; [apply Hf; reflexivity|]. split; [exact Ha|exact Hp].
Qed.
Example dir_types_3 : dir_types 0 3 = [0; 4096; 4097]. Proof. reflexivity. Qed.

(* the page hashes of the emitted directories are those of unit C09: one slot per 4096 byte chunk of the stream *)
Theorem pages_are_c09 H h stream : hash_pages H h false stream =
  (concat (map (H h) (C09.Model.chunks 4096 stream)), zlen (C09.Model.chunks 4096 stream), zlen stream).
Proof. reflexivity. Qed.

(* the finished signature parses back to the planned items followed by the CMS wrapper *)
Theorem sign_blob_parses pl cms : Forall item_wf (pl_items pl) -> all_bytes cms = true -> zlen cms + 8 < 4294967296 ->
  items_total (pl_items pl ++ [new_super_item cs_magic_blobwrapper cms]) < 4294967296 ->
  parse_super (sign_finish pl cms) = Ok (cs_magic_embedded, pl_items pl ++ [new_super_item cs_magic_blobwrapper cms]) /\
  spec_super (sign_finish pl cms) = Some (cs_magic_embedded, pl_items pl ++ [new_super_item cs_magic_blobwrapper cms]).
Proof.
  intros Hwf Hb Hl Ht. unfold sign_finish.
  assert (Hall : Forall item_wf (pl_items pl ++ [new_super_item cs_magic_blobwrapper cms])).
  { apply Forall_app. split; [exact Hwf|]. constructor; [|constructor]. apply new_item_wf; [unfold cs_magic_blobwrapper; lia|exact Hl|exact Hb]. }
  split; [apply super_roundtrip|apply super_spec_reader]; try assumption; unfold cs_magic_embedded; lia.
Qed.

(* ------------------------------------------------------------------ what csblob.Verify guarantees when it accepts *)
Section Sound.
  Variable H : Z -> bytes -> bytes.
  Variable cms_verify : bytes -> bytes -> option (option (list (Z * bytes)) * option (list bytes)).

  Definition slot_bound (s : sigblob) (vp : vparams) (d : pdir) (code : Z) : Prop :=
    forall x, dir_special d code = Some x -> x = H (d_hash d) (obytes (check_blob s vp code)).
  Definition dir_bound (s : sigblob) (vp : vparams) (d : pdir) : Prop :=
    slot_bound s vp d 7 /\ slot_bound s vp d 5 /\ slot_bound s vp d 2 /\ slot_bound s vp d 6 /\
    (isSome (vp_info vp) = true -> slot_bound s vp d 1) /\ (isSome (vp_res vp) = true -> slot_bound s vp d 3).
  Lemma beq a b : bytes_eqb a b = true -> b = a.
  Proof. intros E. apply list_eqb_Z_eq in E. now symmetry. Qed.
  Lemma run_checks_sound s vp d : run_checks H s vp d vfy_checks vfy_check_guards = Ok tt -> dir_bound s vp d.
  Proof.
    unfold vfy_checks, vfy_check_guards. cbn [run_checks nth]. unfold dir_bound, slot_bound.
    change (check_blob s vp 7) with (sg_der s). change (check_blob s vp 5) with (sg_ent s). change (check_blob s vp 2) with (sg_req s).
    change (check_blob s vp 6) with (vp_rep vp). change (check_blob s vp 1) with (vp_info vp). change (check_blob s vp 3) with (vp_res vp).
    destruct (dir_special d 7) as [x7|]; cbn [isSome obytes].
    1: destruct (bytes_eqb (H (d_hash d) (obytes (sg_der s))) x7) eqn:E7; [apply beq in E7|discriminate].
    all: destruct (dir_special d 5) as [x5|]; cbn [isSome obytes].
    all: try (destruct (bytes_eqb (H (d_hash d) (obytes (sg_ent s))) x5) eqn:E5; [apply beq in E5|discriminate]).
    all: destruct (dir_special d 2) as [x2|]; cbn [isSome obytes].
    all: try (destruct (bytes_eqb (H (d_hash d) (obytes (sg_req s))) x2) eqn:E2; [apply beq in E2|discriminate]).
    all: destruct (dir_special d 6) as [x6|]; cbn [isSome obytes].
    all: try (destruct (bytes_eqb (H (d_hash d) (obytes (vp_rep vp))) x6) eqn:E6; [apply beq in E6|discriminate]).
    all: destruct (dir_special d 1) as [x1|]; cbn [isSome obytes andb].
    all: destruct (vp_info vp) as [inf|]; cbn [isSome obytes andb].
    all: try (destruct (bytes_eqb (H (d_hash d) inf) x1) eqn:E1; [apply beq in E1|discriminate]).
    all: destruct (dir_special d 3) as [x3|]; cbn [isSome obytes andb].
    all: destruct (vp_res vp) as [rs|]; cbn [isSome obytes andb].
    all: try (destruct (bytes_eqb (H (d_hash d) rs) x3) eqn:E3; [apply beq in E3|discriminate]).
    all: intros _; repeat split; intros; try discriminate; try congruence.
  Qed.
  Fixpoint computed_of (dirs : list pdir) (acc : list (Z * bytes)) : list (Z * bytes) :=
    match dirs with [] => acc | d :: r => computed_of r ((d_hash d, H (d_hash d) (d_raw d)) :: acc) end.
  Lemma check_dirs_sound s vp : forall dirs acc c, check_dirs H s vp dirs acc = Ok c ->
    c = computed_of dirs acc /\ Forall (dir_bound s vp) dirs.
  Proof.
    induction dirs as [|d r IH]; intros acc c; cbn [check_dirs computed_of]; [intros [= <-]; split; [reflexivity|constructor]|].
    destruct (run_checks H s vp d vfy_checks vfy_check_guards) as [[]| |] eqn:Er; cbn [bind]; try discriminate.
    intros Hc. destruct (IH _ _ Hc) as [-> Hf]. split; [reflexivity|]. constructor; [apply run_checks_sound; exact Er|exact Hf].
  Qed.
  Lemma check_plist_sound : forall e a, check_plist_each e a = Ok tt -> zlen e = zlen a -> e = a.
  Proof.
    induction e as [|x er IH]; intros [|y ar]; cbn [check_plist_each]; rewrite ?zlen_cons, ?zlen_nil; intros Hc Hl;
      try reflexivity; try (pose proof (zlen_nonneg ar); lia); try (pose proof (zlen_nonneg er); lia).
    destruct (bytes_eqb x y) eqn:E; [|discriminate]. apply beq in E. subst y. f_equal. apply IH; [exact Hc|lia].
  Qed.
  Lemma check_attr_sound : forall attr computed, check_attr attr computed = Ok tt -> Forall (fun a => clookup (fst a) computed = Some (snd a)) attr.
  Proof.
    induction attr as [|[h dg] r IH]; intros computed; cbn [check_attr]; [constructor|].
    destruct (clookup h computed) as [hc|] eqn:El.
    - destruct (bytes_eqb hc dg) eqn:E; [|discriminate]. apply beq in E. subst dg. intros Hc. constructor; [exact El|apply IH; exact Hc].
    - change (vfy_attr_missing true) with true. discriminate.
  Qed.

  (* C02: when csblob.Verify accepts: there is a directory; the PKCS#7 oracle accepted exactly the bytes of the FIRST directory (lowest slot);
     every non-zero special slot -7 -5 -2 -6 of EVERY directory is the digest of the blob found in the signature (of the empty string when the
     blob is missing), -1 and -3 when the caller supplied the plist / resources; a cd hash attribute lists only digests of directories present;
     a plist attribute lists the (20 byte) digest of every directory, in slot order *)
  Theorem verify_sound blob vp s : cs_verify H cms_verify blob vp = Ok s ->
    parse_signature H blob = Ok s /\
    exists d0 rest attr plist, sg_dirs s = d0 :: rest /\ isSome (sg_cms s) = true /\
      cms_verify (obytes (sg_cms s)) (d_raw d0) = Some (attr, plist) /\
      Forall (dir_bound s vp) (sg_dirs s) /\
      (forall a, attr = Some a -> Forall (fun e => clookup (fst e) (computed_of (sg_dirs s) []) = Some (snd e)) a) /\
      (forall pl, plist = Some pl -> pl = map (fun d => ztake 20 (obytes (clookup (d_hash d) (computed_of (sg_dirs s) [])))) (sg_dirs s)).
  Proof.
    unfold cs_verify. change (negb vfy_layout_ok) with false. cbv iota.
    destruct (parse_signature H blob) as [s0| |]; cbn [bind]; try discriminate.
    destruct (check_dirs H s0 vp (sg_dirs s0) []) as [c| |] eqn:Ec; cbn [bind]; try discriminate.
    apply check_dirs_sound in Ec as [-> Hb].
    unfold vfy_no_dirs, vfy_no_cms. destruct (sg_dirs s0) as [|d0 rest] eqn:Ed; [discriminate|].
    rewrite zlen_cons. replace (1 + zlen rest =? 0) with false by (pose proof (zlen_nonneg rest); lia).
    change (Z.to_nat vfy_content_dir) with 0%nat. cbn [nth_error].
    destruct (sg_cms s0) as [cms|] eqn:Ecms; cbn [isSome negb obytes]; [|discriminate].
    destruct (cms_verify cms (d_raw d0)) as [[attr plist]|] eqn:Ev; [|discriminate].
    destruct (match attr with Some a => check_attr a _ | None => Ok tt end) as [[]| |] eqn:Ea; cbn [bind]; try discriminate.
    destruct (match plist with Some pl => _ | None => Ok tt end) as [[]| |] eqn:Ep; cbn [bind]; try discriminate.
    intros [= <-]. split; [reflexivity|]. exists d0, rest, attr, plist. rewrite Ed, Ecms. cbn [isSome obytes].
    split; [reflexivity|]. split; [reflexivity|]. split; [exact Ev|]. split; [exact Hb|]. split.
    - intros a ->. apply check_attr_sound. exact Ea.
    - intros pl ->. unfold vfy_plist_count_bad in Ep. change vfy_plist_trunc with 20 in Ep.
      destruct (negb (zlen pl =? zlen (map _ (d0 :: rest)))) eqn:En; [discriminate|].
      apply negb_false_iff, Z.eqb_eq in En. apply check_plist_sound; [exact Ep|exact En].
  Qed.

  (* ... in particular, with the plist attribute and directories of pairwise different digest algorithms, EVERY directory is bound *)
  Lemma clookup_computed : forall dirs acc d, In d dirs -> NoDup (map d_hash dirs) -> (forall e, In e acc -> ~ In (fst e) (map d_hash dirs)) ->
    clookup (d_hash d) (computed_of dirs acc) = Some (H (d_hash d) (d_raw d)).
  Proof.
    induction dirs as [|x r IH]; intros acc d Hi Hn Ha; [destruct Hi|]. cbn [computed_of map] in *. inversion Hn as [|? ? Hx Hr]; subst.
    destruct Hi as [->|Hi].
    - clear IH. assert (Hk : forall r' acc', ~ In (d_hash d) (map d_hash r') -> clookup (d_hash d) acc' = Some (H (d_hash d) (d_raw d)) ->
                              clookup (d_hash d) (computed_of r' acc') = Some (H (d_hash d) (d_raw d))).
      { induction r' as [|y r' IH']; intros acc' Hni Hl; [exact Hl|]. cbn [computed_of map] in *. apply IH'; [intros Hc; apply Hni; right; exact Hc|].
        cbn [clookup]. destruct (d_hash y =? d_hash d) eqn:E; [exfalso; apply Hni; left; lia|exact Hl]. }
      apply Hk; [exact Hx|]. cbn [clookup]. now rewrite Z.eqb_refl.
    - apply IH; [exact Hi|exact Hr|]. intros e [<-|He]; cbn [fst]; [exact Hx|]. intros Hc. apply (Ha e He). right. exact Hc.
  Qed.
  Theorem two_dirs_bound blob vp s d0 rest attr pl : cs_verify H cms_verify blob vp = Ok s -> sg_dirs s = d0 :: rest ->
    cms_verify (obytes (sg_cms s)) (d_raw d0) = Some (attr, Some pl) -> NoDup (map d_hash (sg_dirs s)) ->
    pl = map (fun d => ztake 20 (H (d_hash d) (d_raw d))) (sg_dirs s).
  Proof.
    intros Hv Hd Hc Hn. destruct (verify_sound _ _ _ Hv) as [_ [d0' [rest' [attr' [plist' [Hd' [_ [Hc' [_ [_ Hp]]]]]]]]]].
    rewrite Hd in Hd'. injection Hd' as <- <-. rewrite Hc in Hc'. injection Hc' as <- <-.
    rewrite (Hp pl eq_refl). apply map_ext_in. intros d Hi. rewrite clookup_computed; [reflexivity|exact Hi|exact Hn|intros e []].
  Qed.
End Sound.

(* ------------------------------------------------------------------ what VerifyPages guarantees *)
Section Pages.
  Variable H : Z -> bytes -> bytes.
  Lemma section_reader_prefix file n : ztake (mm_s64 n) (section_reader file n) = ztake (mm_s64 n) file.
  Proof.
    unfold section_reader. destruct (n <? 0) eqn:E; [reflexivity|]. rewrite ztk_eq.
    destruct (Z.le_gt_cases (mm_s64 n) 0) as [Hle|Hgt]; [rewrite !ztake_neg by lia; reflexivity|].
    (* mm_s64 n <= n for n >= 0 *)
    assert (Hm : mm_s64 n <= n).
    { unfold mm_s64. pose proof (Z.mod_le (n + 9223372036854775808) 18446744073709551616 ltac:(lia) ltac:(lia)). lia. }
    rewrite FmtMACHO.ProofsVP.ztake_ztake by lia. f_equal. lia.
  Qed.
  (* C02: when VerifyPages accepts a paged directory, every code slot is the digest of the corresponding page of the first CodeSize() bytes of
     the file (pages as in unit C09: 2^pageSize bytes, the last one short; CodeSize() as the int64 it is); slots beyond the pages make it fail,
     pages beyond the slots are NOT looked at (FmtMACHO.ProofsVP.few_slots_refuted) *)
  Theorem verify_pages_sound s file d : verify_pages H s file = Ok tt -> best_dir (sg_dirs s) None = Some d ->
    h_pagesize (d_hdr d) <> 0 -> 0 <= h_pagesize (d_hdr d) ->
    let ps := 2 ^ h_pagesize (d_hdr d) in
    h_pagesize (d_hdr d) <= 20 /\
    Forall2 (fun e pg => obytes e = H (d_hash d) pg) (d_codes d) (firstn (length (d_codes d)) (C09.Model.chunks ps (ztake (mm_s64 (code_size s)) file))).
  Proof.
    unfold verify_pages, verify_pages_rd. intros Hv Hb Hsp H0. cbv zeta.
    assert (Hin : vp_input s (alloc_limit (zlen file)) = mkVin false (h_pagesize (d_hdr d)) (map obytes (d_codes d)) (d_hash d) (code_size s) (alloc_limit (zlen file)))
      by (unfold vp_input; rewrite Hb; reflexivity).
    rewrite Hin in Hv. pose proof (zlen_nonneg file) as Hf.
    assert (Hl20 : h_pagesize (d_hdr d) <= 20).
    { rewrite FmtMACHO.ProofsVP.vp_exec_eq in Hv by (cbn; unfold alloc_limit; lia). unfold FmtMACHO.ProofsVP.vp_fun in Hv. cbn [i_none i_log2] in Hv. cbv zeta in Hv.
      destruct (_ <? 0); [discriminate|]. replace (h_pagesize (d_hdr d) =? 0) with false in Hv by lia. destruct (h_pagesize (d_hdr d) >? 20) eqn:E; [discriminate|lia]. }
    split; [exact Hl20|].
    match type of Hv with vp_exec _ ?c _ ?rd = _ =>
      assert (Hp := FmtMACHO.ProofsVP.vp_accepts_prefix H c rd ltac:(cbn [i_log2]; lia) ltac:(cbn [i_alloc_limit]; unfold alloc_limit; lia) Hv) end.
    cbn [i_hashes i_hfun i_log2 i_code_size] in Hp. rewrite section_reader_prefix in Hp. rewrite map_length in Hp.
    set (pgs := firstn (length (d_codes d)) _) in *. clearbody pgs. clear -Hp. revert pgs Hp.
    induction (d_codes d) as [|e r IH]; intros pgs Hp; destruct pgs as [|pg pgs]; cbn [map] in Hp; try discriminate; constructor.
    - injection Hp as Hp _. exact Hp.
    - apply IH. injection Hp as _ Hp. exact Hp.
  Qed.
End Pages.

(* ------------------------------------------------------------------ witnesses of what Verify does NOT bind (a toy digest: computable, never all-zero) *)
Definition toyH (h : Z) (x : bytes) : bytes := repeat (fold_left (fun a b => (a * 31 + b + 7) mod 251) x 1 + 1) (Z.to_nat (go_hash_size h)).
Definition w_code : bytes := [1; 2; 3].
Definition w_tampered : bytes := [1; 2; 4].
Definition w_cd (h : Z) (code : bytes) : bytes :=
  match new_code_directory toyH (mkCP 0 [105] [] 0 0 0 [None; None; None; None; None] (toyH h code) 1 h 3 false) with Ok (raw, _) => raw | _ => [] end.
Definition w_cd0 : bytes := w_cd 3 w_code.                 (* SHA-1 style directory over the genuine code: the one the PKCS#7 signature covers *)
Definition w_cd_alt : bytes := w_cd 5 w_tampered.          (* attacker's SHA-256 style directory over the modified code *)
Definition w_wrapper : sitem := new_super_item cs_magic_blobwrapper [9].
Definition w_blob_genuine : bytes := marshal_super cs_magic_embedded [mkSI 0 cs_magic_codedirectory w_cd0; w_wrapper].
Definition w_blob_alt : bytes := marshal_super cs_magic_embedded [mkSI 0 cs_magic_codedirectory w_cd0; mkSI 4096 cs_magic_codedirectory w_cd_alt; w_wrapper].
Definition w_ent : sitem := new_super_item cs_magic_entitlement [60; 120; 47; 62].
Definition w_blob_ent : bytes := marshal_super cs_magic_embedded [mkSI 0 cs_magic_codedirectory w_cd0; mkSI 5 (si_magic w_ent) (si_data w_ent); w_wrapper].
Definition w_vp : vparams := mkVP None None None.
(* PKCS#7 oracles: a valid signature over w_cd0 without the Apple attributes / with the attribute list only / with the plist *)
Definition w_cms_none (cms content : bytes) := if bytes_eqb content w_cd0 then Some (@None (list (Z * bytes)), @None (list bytes)) else None.
Definition w_cms_attr (cms content : bytes) := if bytes_eqb content w_cd0 then Some (Some [(3, toyH 3 w_cd0)], @None (list bytes)) else None.
Definition w_cms_plist (cms content : bytes) := if bytes_eqb content w_cd0 then Some (@None (list (Z * bytes)), Some [ztake 20 (toyH 3 w_cd0)]) else None.

Definition accepts (cmsv : bytes -> bytes -> option (option (list (Z * bytes)) * option (list bytes))) (blob file : bytes) : bool :=
  match cs_verify toyH cmsv blob w_vp with Ok s => match verify_pages toyH s file with Ok _ => true | _ => false end | _ => false end.

(* the genuine signature protects the code; after an alternate directory is grafted in, the MODIFIED code verifies, although the only directory
   the PKCS#7 signature covers (slot 0) does not describe it; the same with the cd hash attribute alone; the plist attribute stops it *)
Theorem alternate_unbound_refuted :
  accepts w_cms_none w_blob_genuine w_code = true /\ accepts w_cms_none w_blob_genuine w_tampered = false /\
  accepts w_cms_none w_blob_alt w_tampered = true /\ accepts w_cms_attr w_blob_alt w_tampered = true /\
  accepts w_cms_plist w_blob_genuine w_code = true /\ accepts w_cms_plist w_blob_alt w_tampered = false /\
  cs_verify toyH w_cms_plist w_blob_alt w_vp = Err E_COUNT.
Proof. vm_compute. repeat split; reflexivity. Qed.
(* an entitlements blob added to a signature whose directory has no slot for it: accepted, and reported as part of the signature *)
Theorem blob_without_slot_refuted :
  match cs_verify toyH w_cms_none w_blob_ent w_vp with
  | Ok s => sg_ent s = Some (si_data w_ent) /\ Forall (fun d => dir_special d 5 = None) (sg_dirs s) /\ verify_pages toyH s w_code = Ok tt
  | _ => False
  end.
Proof. vm_compute. repeat split; try reflexivity. repeat constructor. Qed.
