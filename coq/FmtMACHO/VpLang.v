(* FmtMACHO/VpLang.v — the small imperative language into which srcgen translates the BODY of
   lib/fruit/csblob SigBlob.VerifyPages statement by statement (Generated/FmtMACHO_gen.v : vp_prog), and its interpreter.
   Statements are constructors (deep), expressions are Gallina functions of the inputs and the state (shallow, produced by the shared
   expression translator of srcgen), so a changed operator, constant, operand, guard position or a dropped / added statement in the Go
   source changes the generated program, and every theorem of FmtMACHO/ProofsVP.v is a statement about THAT program.
   Go semantics kept exactly: int64 variables (the generated expressions wrap with mm_s64), make([]byte, n) panics for n < 0, a reslice
   page[:n] panics unless 0 <= n <= cap(page) and otherwise only moves len (the backing array keeps its bytes), io.ReadFull fills
   len(page) bytes or reports an error, hash.Hash accumulates what is written until Reset, `return err` returns whatever err holds
   (nil included).  Not modelled: read errors of the underlying file (the readers are in-memory / regular files). *)
From Relic Require Import Base.Prelude.

(* what VerifyPages reads and never writes *)
Record vin := mkVin {
  i_none : bool;            (* s.bestDir() == nil *)
  i_log2 : Z;               (* dir.Header.PageSizeLog2 (uint8) *)
  i_hashes : list bytes;    (* dir.CodeHashes; a nil entry (all-zero slot) is [] *)
  i_hfun : Z;               (* dir.HashFunc *)
  i_code_size : Z;          (* s.CodeSize() *)
  i_alloc_limit : Z }.      (* a single allocation above this is a finding of its own (P_ALLOC) *)

(* its local variables and the reader *)
Record vst := mkVst {
  s_remaining : Z;          (* remaining int64 *)
  s_page_size : Z;          (* pageSize int64 *)
  s_back : bytes;           (* backing array of page; cap(page) = its length *)
  s_plen : Z;               (* len(page) *)
  s_rd : bytes;             (* what the reader r has not delivered yet *)
  s_acc : bytes;            (* bytes written to h since the last Reset *)
  s_computed : bytes;
  s_err : bool;             (* err != nil *)
  s_n : Z;                  (* n of n, err := io.Copy(h, r) *)
  s_i : Z; s_expected : bytes }.  (* loop variables of for i, expected := range dir.CodeHashes *)

Definition vexpr (A : Type) := vin -> vst -> A.

Inductive vstmt : Type :=
| SIf (c : vexpr bool) (a b : list vstmt)
| SRet (code : Z)                  (* return nil (0) or a new error (class as in harness/p/fmtmacho classify) *)
| SRetErr                          (* return err *)
| SBestDir                         (* dir := s.bestDir() : nil-ness is the input i_none *)
| SSetRemaining (e : vexpr Z)
| SSetPageSize (e : vexpr Z)
| SMakePage (e : vexpr Z)          (* page := make([]byte, e) *)
| SReslice (e : vexpr Z)           (* page = page[:e] *)
| SNewHash                         (* h := dir.HashFunc.New() *)
| SHashReset                       (* h.Reset() *)
| SHashWritePage                   (* h.Write(page) *)
| SHashSum                         (* computed := h.Sum(nil) *)
| SCopyAll                         (* n, err := io.Copy(h, r) *)
| SReadFull                        (* _, err := io.ReadFull(r, page) *)
| SRange (body : list vstmt).      (* for i, expected := range dir.CodeHashes { body } *)

Inductive vout : Type := VNext (s : vst) | VRet (code : Z) | VPanic (p : Z).

Definition VP_SLICE := 1.  (* slice bounds out of range *)
Definition VP_MAKE := 2.   (* makeslice: len out of range *)
Definition VP_ALLOC := 4.  (* allocation above i_alloc_limit *)
Definition VE_READ := 1.   (* io.EOF / io.ErrUnexpectedEOF *)

Definition vzeros (n : Z) : bytes := repeat 0 (Z.to_nat n).

Definition set_remaining (s : vst) (v : Z) : vst :=
  mkVst v (s_page_size s) (s_back s) (s_plen s) (s_rd s) (s_acc s) (s_computed s) (s_err s) (s_n s) (s_i s) (s_expected s).
Definition set_page_size (s : vst) (v : Z) : vst :=
  mkVst (s_remaining s) v (s_back s) (s_plen s) (s_rd s) (s_acc s) (s_computed s) (s_err s) (s_n s) (s_i s) (s_expected s).
Definition set_page (s : vst) (back : bytes) (plen : Z) : vst :=
  mkVst (s_remaining s) (s_page_size s) back plen (s_rd s) (s_acc s) (s_computed s) (s_err s) (s_n s) (s_i s) (s_expected s).
Definition set_acc (s : vst) (acc : bytes) : vst :=
  mkVst (s_remaining s) (s_page_size s) (s_back s) (s_plen s) (s_rd s) acc (s_computed s) (s_err s) (s_n s) (s_i s) (s_expected s).
Definition set_computed (s : vst) (c : bytes) : vst :=
  mkVst (s_remaining s) (s_page_size s) (s_back s) (s_plen s) (s_rd s) (s_acc s) c (s_err s) (s_n s) (s_i s) (s_expected s).
Definition set_loop (s : vst) (i : Z) (e : bytes) : vst :=
  mkVst (s_remaining s) (s_page_size s) (s_back s) (s_plen s) (s_rd s) (s_acc s) (s_computed s) (s_err s) (s_n s) i e.
(* n, err := io.Copy(h, r): everything left goes into the hash *)
Definition do_copy_all (s : vst) : vst :=
  mkVst (s_remaining s) (s_page_size s) (s_back s) (s_plen s) [] (s_acc s ++ s_rd s) (s_computed s) false (zlen (s_rd s)) (s_i s) (s_expected s).
(* _, err := io.ReadFull(r, page) *)
Definition do_read_full (s : vst) : vst :=
  let k := s_plen s in
  if zlen (s_rd s) <? k
  then mkVst (s_remaining s) (s_page_size s) (s_rd s ++ zdrop (zlen (s_rd s)) (s_back s)) k [] (s_acc s) (s_computed s) true (s_n s) (s_i s) (s_expected s)
  else mkVst (s_remaining s) (s_page_size s) (ztake k (s_rd s) ++ zdrop k (s_back s)) k (zdrop k (s_rd s)) (s_acc s) (s_computed s) false (s_n s) (s_i s) (s_expected s).

Section Exec.
  Variable H : Z -> bytes -> bytes.       (* crypto.Hash id -> message -> digest *)
  Variable c : vin.

  Fixpoint exec1 (st : vstmt) (s : vst) {struct st} : vout :=
    let exec_list := fix go (l : list vstmt) (s : vst) {struct l} : vout :=
      match l with
      | [] => VNext s
      | x :: r => match exec1 x s with VNext s' => go r s' | o => o end
      end in
    match st with
    | SIf cond a b => if cond c s then exec_list a s else exec_list b s
    | SRet code => VRet code
    | SRetErr => VRet (if s_err s then VE_READ else 0)
    | SBestDir => VNext s
    | SSetRemaining e => VNext (set_remaining s (e c s))
    | SSetPageSize e => VNext (set_page_size s (e c s))
    | SMakePage e =>
        let n := e c s in
        if n <? 0 then VPanic VP_MAKE else if i_alloc_limit c <? n then VPanic VP_ALLOC else VNext (set_page s (vzeros n) n)
    | SReslice e =>
        let n := e c s in
        if (n <? 0) || (zlen (s_back s) <? n) then VPanic VP_SLICE else VNext (set_page s (s_back s) n)
    | SNewHash => VNext (set_acc s [])
    | SHashReset => VNext (set_acc s [])
    | SHashWritePage => VNext (set_acc s (s_acc s ++ ztake (s_plen s) (s_back s)))
    | SHashSum => VNext (set_computed s (H (i_hfun c) (s_acc s)))
    | SCopyAll => VNext (do_copy_all s)
    | SReadFull => VNext (do_read_full s)
    | SRange body =>
        (fix loop (hs : list bytes) (i : Z) (s : vst) {struct hs} : vout :=
           match hs with
           | [] => VNext s
           | e :: r => match exec_list body (set_loop s i e) with VNext s' => loop r (i + 1) s' | o => o end
           end) (i_hashes c) 0 s
    end.

  Fixpoint exec_list (l : list vstmt) (s : vst) {struct l} : vout :=
    match l with
    | [] => VNext s
    | x :: r => match exec1 x s with VNext s' => exec_list r s' | o => o end
    end.
  Fixpoint exec_range (body : list vstmt) (hs : list bytes) (i : Z) (s : vst) {struct hs} : vout :=
    match hs with
    | [] => VNext s
    | e :: r => match exec_list body (set_loop s i e) with VNext s' => exec_range body r (i + 1) s' | o => o end
    end.

  Lemma exec1_if cond a b s : exec1 (SIf cond a b) s = if cond c s then exec_list a s else exec_list b s.
  Proof. cbn [exec1]. destruct (cond c s); [induction a | induction b]; reflexivity. Qed.
  Lemma exec1_range body s : exec1 (SRange body) s = exec_range body (i_hashes c) 0 s.
  Proof.
    cbn [exec1]. generalize (i_hashes c) as hs. generalize 0 as i. intros i hs. revert i s.
    induction hs as [|e r IH]; intros i s; [reflexivity|]. cbn [exec_range].
    match goal with |- match ?f body ?x with _ => _ end = _ => replace (f body x) with (exec_list body x) by (generalize x; induction body; reflexivity) end.
    destruct (exec_list body (set_loop s i e)); [apply IH|reflexivity|reflexivity].
  Qed.

  Definition vp_init (rd : bytes) : vst := mkVst 0 0 [] 0 rd [] [] false 0 0 [].
  (* the whole function on the reader content rd (falling off the end cannot happen in Go: counted as return nil) *)
  Definition vp_exec (prog : list vstmt) (rd : bytes) : result unit :=
    match exec_list prog (vp_init rd) with
    | VNext _ => Ok tt
    | VRet code => if code =? 0 then Ok tt else Err code
    | VPanic p => Panic p
    end.
End Exec.
