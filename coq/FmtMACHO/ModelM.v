(* FmtMACHO/ModelM.v — part 2: lib/fruit/machos (header.go scanFile / PatchSignature / patchNcmd / patchLoadCmd / patchLinkEdit / align,
   sign.go Sign: size estimate, spliced page stream, overflow check; verify.go readSigBlob) on whole files as byte strings,
   and the independent Mach-O reader written from <mach-o/loader.h>. *)
From Relic Require Import Base.Prelude Base.Enc Generated.FmtMACHO_gen FmtMACHO.Model.

Definition E_MAGICNUM := 20.   (* invalid magic number *)
Definition E_EOF := 21.        (* io.EOF / io.ErrUnexpectedEOF while reading the header or a command *)
Definition E_CMDBLOCK := 22.   (* command block too small / invalid command block size *)
Definition E_COTERM := 23.     (* old signature is not coterminous with __LINKEDIT segment *)
Definition E_OVERLAP := 24.    (* existing signature overlaps the end of the __LINKEDIT segment *)
Definition E_LCROOM := 25.     (* mach-o loader cmd for signature would overflow next section *)
Definition E_OVERFLOW := 26.   (* signature overflows reserved space *)
Definition E_COPY := 27.       (* binpatch.Apply: patch outside the file / overlapping patches *)
Definition E_NOTSIGNED := 28.  (* NotSignedError *)
Definition E_CSLEN := 29.      (* expected LC_CODE_SIGNATURE to be 16 bytes / unreasonably large *)
Definition E_OLDSIG := 30.     (* parsing old signature failed *)
Definition E_NOLINKEDIT := 31. (* mach-o file has no __LINKEDIT segment to hold a signature *)
Definition E_DOMAIN := 40.     (* outside the stated domain (embed_wf only) *)

(* ---- byte order *)
Definition dec (le : bool) (l : bytes) : Z := if le then le_dec l else be_dec l.
Definition enc (le : bool) (w : nat) (v : Z) : bytes := if le then le_enc w v else be_enc w v.
Definition rdf (le : bool) (off w : Z) (l : bytes) : Z := dec le (zslice off (off + w) l).

(* Mach-O constants and structure offsets: <mach-o/loader.h> (= Go debug/macho FileHeader, Segment32/64, Section32/64) *)
Definition MH_HDR32 := 28. Definition MH_HDR64 := 32.
Definition LC_SEGMENT := 1. Definition LC_SEGMENT_64 := 25. Definition LC_CODE_SIGNATURE := 29.
Definition SEG32_SIZE := 56. Definition SECT32_SIZE := 68. Definition SEG64_SIZE := 72. Definition SECT64_SIZE := 80.

Record markers := mkM {
  m_le : bool; m_magic : Z; m_ncmd : Z; m_cmdsz : Z; m_sig_start : Z; m_sig_len : Z; m_load_cs : Z; m_le_pos : Z;
  m_le_addr : Z; m_le_memsz : Z; m_le_off : Z; m_le_filesz : Z; m_next_lc : Z; m_first_sh : Z; m_code_size : Z }.

Definition mo_align (addr a : Z) : Z :=
  let n := mo_align_rem addr a in if mo_align_needed n then mo_align_bump addr a n else addr.

Fixpoint cstr16 (l : bytes) : bytes := match l with [] => [] | c :: r => if c =? 0 then [] else c :: cstr16 r end.

(* ================================================================== scanFile *)
Definition scan_layout_ok : bool :=
  list_eqb (list_eqb Z.eqb) mo_cmd_switch_keys [[LC_SEGMENT]; [LC_SEGMENT_64]; [LC_CODE_SIGNATURE]] &&
  list_eqb (list_eqb Z.eqb) mo_cmd_switch_acts [[1; 2; 3]; [1; 2; 3]; [4; 5; 6]] &&
  list_eqb Z.eqb mo_codesize_targets_then [1; 2] && list_eqb Z.eqb mo_codesize_targets_else [1] &&
  (mo_cscmd_off_SigOffset =? 8) && (mo_cscmd_off_SigLength =? 12) && (mo_cscmd_size =? 16) && (mo_magic_tag =? 4277009102).

(* the section loop of one segment command: b = the bytes of cmddat behind the segment header *)
Fixpoint sect_loop (fuel : nat) (le is64 : bool) (b : bytes) (i nsect seg_filesz first_sh : Z) : result Z :=
  match fuel with
  | O => Panic P_HANG
  | S k =>
      if negb (mo_sect_loop i nsect) then Ok first_sh else
      let sz := if is64 then SECT64_SIZE else SECT32_SIZE in
      if zlen b <? sz then Err E_EOF else
      let sh_size := if is64 then rdf le 40 8 b else rdf le 36 4 b in
      let sh_off := if is64 then rdf le 48 4 b else rdf le 40 4 b in
      let lowers := if is64 then mo_sect64_lowers seg_filesz sh_size sh_off first_sh else mo_sect32_lowers sh_size sh_off first_sh in
      sect_loop k le is64 (zdrop sz b) (i + 1) nsect seg_filesz (if lowers then sh_off else first_sh)
  end.

Record scanst := mkSt { st_sig_start : Z; st_sig_len : Z; st_load_cs : Z; st_le_pos : Z; st_le_addr : Z; st_le_memsz : Z; st_le_off : Z;
                        st_le_filesz : Z; st_first_sh : Z }.
Fixpoint cmd_loop (fuel : nat) (le : bool) (dat : bytes) (i ncmd end_of_header : Z) (st : scanst) : result scanst :=
  match fuel with
  | O => Panic P_HANG
  | S k =>
      if negb (mo_cmd_loop i ncmd) then Ok st else
      if mo_cmd_block_small (zlen dat) then Err E_CMDBLOCK else
      let cmd := rdf le 0 4 dat in let siz := rdf le 4 4 dat in
      if mo_cmd_size_bad siz (zlen dat) then Err E_CMDBLOCK else
      let cmd_pos := mo_cmd_pos end_of_header (zlen dat) in
      let cmddat := ztake siz dat in
      st' <- (if cmd =? LC_SEGMENT then
                if zlen cmddat <? SEG32_SIZE then Err E_EOF else
                let islink := bytes_eqb (cstr16 (zslice 8 24 cmddat)) mo_seg_linkedit in
                fs <- sect_loop (S (length cmddat)) le false (zdrop SEG32_SIZE cmddat) 0 (rdf le 48 4 cmddat) 0 (st_first_sh st) ;;
                Ok (if islink then mkSt (st_sig_start st) (st_sig_len st) (st_load_cs st) cmd_pos (rdf le 24 4 cmddat) (rdf le 28 4 cmddat)
                                        (rdf le 32 4 cmddat) (rdf le 36 4 cmddat) fs
                    else mkSt (st_sig_start st) (st_sig_len st) (st_load_cs st) (st_le_pos st) (st_le_addr st) (st_le_memsz st) (st_le_off st) (st_le_filesz st) fs)
              else if cmd =? LC_SEGMENT_64 then
                if zlen cmddat <? SEG64_SIZE then Err E_EOF else
                let islink := bytes_eqb (cstr16 (zslice 8 24 cmddat)) mo_seg_linkedit in
                fs <- sect_loop (S (length cmddat)) le true (zdrop SEG64_SIZE cmddat) 0 (rdf le 64 4 cmddat) (rdf le 48 8 cmddat) (st_first_sh st) ;;
                Ok (if islink then mkSt (st_sig_start st) (st_sig_len st) (st_load_cs st) cmd_pos (rdf le 24 8 cmddat) (rdf le 32 8 cmddat)
                                        (rdf le 40 8 cmddat) (rdf le 48 8 cmddat) fs
                    else mkSt (st_sig_start st) (st_sig_len st) (st_load_cs st) (st_le_pos st) (st_le_addr st) (st_le_memsz st) (st_le_off st) (st_le_filesz st) fs)
              else if cmd =? mo_lc_code_signature then
                if zlen cmddat <? mo_cscmd_size then Err E_EOF else
                Ok (mkSt (rdf le mo_cscmd_off_SigOffset 4 cmddat) (rdf le mo_cscmd_off_SigLength 4 cmddat) cmd_pos (st_le_pos st) (st_le_addr st)
                         (st_le_memsz st) (st_le_off st) (st_le_filesz st) (st_first_sh st))
              else Ok st) ;;
      cmd_loop k le (zdrop siz dat) (i + 1) ncmd end_of_header st'
  end.

Definition scan_file (f : bytes) : result markers :=
  if negb scan_layout_ok then Err 99 else
  if zlen f <? 4 then Err E_EOF else
  let be := be_dec (ztake 4 f) in let lev := le_dec (ztake 4 f) in
  match (if mo_magic_tag =? mo_magic_case_be be then Some (false, be) else if mo_magic_tag =? mo_magic_case_le lev then Some (true, lev) else None) with
  | None => Err E_MAGICNUM
  | Some (le, magic) =>
      if zlen f <? mo_hdr_size0 then Err E_EOF else
      let ncmd := rdf le 16 4 f in let cmdsz := rdf le 20 4 f in
      let hdr_end := if mo_is_64 magic then mo_hdr_size64 mo_hdr_size0 else mo_hdr_size0 in
      let dat := ztk cmdsz (zdrop hdr_end f) in                     (* io.ReadAll(io.LimitReader(r, Cmdsz)) *)
      if mo_cmds_short (zlen dat) cmdsz then Err E_EOF else
      let end_of_header := hdr_end + zlen dat in
      st <- cmd_loop (S (length dat)) le dat 0 ncmd end_of_header (mkSt 0 0 0 0 0 0 0 0 mo_first_sh_init) ;;
      if mo_no_linkedit (st_le_pos st) then Err E_NOLINKEDIT else
      let link_edit_end := mo_link_edit_end (st_le_off st) (st_le_filesz st) in
      if mo_has_old_sig (st_sig_len st) then
        let sig_end := mo_sig_end (st_sig_start st) (st_sig_len st) in
        if mo_old_sig_misplaced sig_end link_edit_end then Err E_COTERM else
        Ok (mkM le magic ncmd cmdsz (st_sig_start st) (st_sig_len st) (st_load_cs st) (st_le_pos st) (st_le_addr st) (st_le_memsz st) (st_le_off st)
                (st_le_filesz st) end_of_header (st_first_sh st) (mo_codesize_signed (st_sig_start st)))
      else
        Ok (mkM le magic ncmd cmdsz (st_sig_start st) (st_sig_len st) (st_load_cs st) (st_le_pos st) (st_le_addr st) (st_le_memsz st) (st_le_off st)
                (st_le_filesz st) end_of_header (st_first_sh st) (mo_codesize_unsigned link_edit_end))
  end.

(* ================================================================== PatchSignature *)
Definition put (off : Z) (v buf : bytes) : result bytes :=
  if (off <? 0) || (zlen buf <? off + zlen v) then Panic P_SLICE else Ok (ztake off buf ++ v ++ zdrop (off + zlen v) buf).
Definition crdf (le : bool) (off w : Z) (l : bytes) : result Z :=
  if (off <? 0) || (zlen l <? off + w) then Panic P_SLICE else Ok (rdf le off w l).

Definition patch_layout_ok : bool :=
  list_eqb (list_eqb Z.eqb) mo_patch_calls [[0; 1; 2; 99; 1]; [1; 4; 5; 0; 0]; [2; 4; 5; 99; 0]; [3; 4; 5; 99; 0]; [0; 3; 2; 99; 0]] &&
  (mo_ncmd_patch_off =? mo_ncmd_at) && (mo_cmdsz_at =? mo_ncmd_at + 4) && (mo_ncmd_patch_len =? 8) && (mo_lc_patch_len =? 16) &&
  (mo_le64_patch_len =? 24) && (mo_le32_patch_len =? 12).

(* a patch: offset in the old file, bytes removed, bytes inserted *)
Definition patch := (Z * Z * bytes)%type.
Record patched := mkP { p_hdr : bytes; p_sig_buf_len : Z; p_sig_start : Z; p_padding : Z;
                        p_hdr_ranges : list (Z * Z);   (* header patches (offset, length); their content is the FINAL header (the blobs alias it) *)
                        p_sig_patch : Z * Z * Z }.     (* (offset, old length, new length) of the signature patch; content = padding zeros ++ signature buffer *)

Definition patch_ncmd (m : markers) (hdr : bytes) : result (bytes * Z * list (Z * Z)) :=
  if mo_has_load_cs (m_load_cs m) then Ok (hdr, m_load_cs m, []) else
  let load_cs := m_next_lc m in
  let load_cs_end := mo_load_cs_end (m_next_lc m) in
  if mo_lc_overflows load_cs_end (m_first_sh m) then Err E_LCROOM else
  let hdr1 := if mo_hdr_extend (zlen hdr) load_cs_end then hdr ++ zeros (load_cs_end - zlen hdr) else hdr in
  n <- crdf (m_le m) mo_ncmd_at 4 hdr1 ;;
  hdr2 <- put mo_ncmd_at (enc (m_le m) 4 (mo_ncmd_new n)) hdr1 ;;
  c <- crdf (m_le m) mo_cmdsz_at 4 hdr2 ;;
  hdr3 <- put mo_cmdsz_at (enc (m_le m) 4 (mo_cmdsz_new c)) hdr2 ;;
  _ <- cslice mo_ncmd_patch_off (mo_ncmd_patch_off + mo_ncmd_patch_len) hdr3 ;;
  Ok (hdr3, load_cs, [(mo_ncmd_patch_off, mo_ncmd_patch_len)]).
Definition patch_link_edit (m : markers) (hdr : bytes) (sig_start sig_size : Z) : result (bytes * (Z * Z)) :=
  let end_ := mo_le_end sig_start sig_size in
  let filesz := mm_wrap64 (mo_le_filesz end_ (m_le_off m)) in
  let memsz := mo_le_memsz mo_align (mm_wrap64 end_) (m_le_off m) in
  if mo_le_is_64 (m_magic m) then
    h1 <- put (mo_le64_memsz_at (m_le_pos m)) (enc (m_le m) 8 memsz) hdr ;;
    h2 <- put (mo_le64_filesz_at (m_le_pos m)) (enc (m_le m) 8 filesz) h1 ;;
    _ <- cslice (mo_le64_patch_off (m_le_pos m)) (mo_le64_patch_off (m_le_pos m) + mo_le64_patch_len) h2 ;;
    Ok (h2, (mo_le64_patch_off (m_le_pos m), mo_le64_patch_len))
  else
    h1 <- put (mo_le32_memsz_at (m_le_pos m)) (enc (m_le m) 4 (mo_le32_memsz_val memsz)) hdr ;;
    h2 <- put (mo_le32_filesz_at (m_le_pos m)) (enc (m_le m) 4 (mo_le32_filesz_val filesz)) h1 ;;
    _ <- cslice (mo_le32_patch_off (m_le_pos m)) (mo_le32_patch_off (m_le_pos m) + mo_le32_patch_len) h2 ;;
    Ok (h2, (mo_le32_patch_off (m_le_pos m), mo_le32_patch_len)).
Definition patch_load_cmd (m : markers) (hdr : bytes) (load_cs sig_start sig_size : Z) : result (bytes * (Z * Z)) :=
  h1 <- put (mo_lc_cmd_at load_cs) (enc (m_le m) 4 (mo_lc_cmd_val sig_start sig_size)) hdr ;;
  h2 <- put (mo_lc_len_at load_cs) (enc (m_le m) 4 (mo_lc_len_val sig_start sig_size)) h1 ;;
  h3 <- put (mo_lc_off_at load_cs) (enc (m_le m) 4 (mo_lc_off_val sig_start sig_size)) h2 ;;
  h4 <- put (mo_lc_size_at load_cs) (enc (m_le m) 4 (mo_lc_size_val sig_start sig_size)) h3 ;;
  _ <- cslice load_cs (load_cs + mo_lc_patch_len) h4 ;;
  Ok (h4, (load_cs, mo_lc_patch_len)).

Definition patch_signature (input_len : Z) (m : markers) (hdr : bytes) (sig_size : Z) : result patched :=
  if negb patch_layout_ok then Err 99 else
  if mo_reuse_block (m_sig_len m) sig_size then
    _ <- alloc input_len (m_sig_len m) ;;
    Ok (mkP hdr (m_sig_len m) (m_sig_start m) 0 [] (m_sig_start m, m_sig_len m, m_sig_len m))
  else
    let sig_size := mo_sig_size_aligned mo_align sig_size in
    let sig_start := if mo_sig_start_unset (m_sig_start m) then mo_sig_start_new mo_align (m_code_size m) else m_sig_start m in
    let padding := mo_padding sig_start (m_code_size m) in
    if mo_padding_neg padding then Err E_OVERLAP else
    _ <- alloc input_len (mo_padded_len padding sig_size) ;;
    r1 <- patch_ncmd m hdr ;;
    let '(h1, load_cs, ps1) := r1 in
    r2 <- patch_link_edit m h1 sig_start sig_size ;;
    r3 <- patch_load_cmd m (fst r2) load_cs sig_start sig_size ;;
    Ok (mkP (fst r3) sig_size sig_start padding (ps1 ++ [snd r2; snd r3]) (m_code_size m, m_sig_len m, mo_padded_len padding sig_size)).

(* ================================================================== binpatch: PatchSet.Add coalescing is invisible in the result; Dump sorts by
   offset; Apply copies the file around the patches.  (The splice semantics of binpatch is the subject of unit C12.) *)
Fixpoint insert_patch (p : patch) (l : list patch) : list patch :=
  match l with [] => [p] | x :: r => if fst (fst p) <? fst (fst x) then p :: l else x :: insert_patch p r end.
Fixpoint sort_patches (l : list patch) : list patch := match l with [] => [] | p :: r => insert_patch p (sort_patches r) end.
Fixpoint apply_sorted (f : bytes) (pos : Z) (ps : list patch) : result bytes :=
  match ps with
  | [] => Ok (zdrop pos f)
  | (off, old, new) :: r =>
      if (off <? pos) || (zlen f <? off + old) || (old <? 0) then Err E_COPY else
      rest <- apply_sorted f (off + old) r ;;
      Ok (zslice pos off f ++ new ++ rest)
  end.
Definition apply_patches (f : bytes) (ps : list patch) : result bytes := apply_sorted f 0 (sort_patches ps).
Definition patch_list (p : patched) (sigbuf : bytes) : list patch :=
  map (fun r => (fst r, snd r, zslice (fst r) (fst r + snd r) (p_hdr p))) (p_hdr_ranges p) ++
  [(fst (fst (p_sig_patch p)), snd (fst (p_sig_patch p)), zeros (p_padding p) ++ sigbuf)].

(* ================================================================== machos.Sign *)
Definition sign_m_layout_ok : bool :=
  list_eqb (list_eqb Z.eqb) mo_pages_reader [[0; 2; 8; 0; 0]; [0; 6; 4; 0; 0]; [1; 1; 7; 3; 0]; [0; 2; 5; 0; 1]] && (mo_pages_third_reader =? 3).
Definition estimate (code_size hash_size ent_len req_len : Z) : Z := mo_est2 (mo_est1 (mo_est0 code_size hash_size) ent_len req_len).

Record mplan := mkMP { mp_markers : markers; mp_patched : patched; mp_stream : bytes; mp_old_sig : option bytes }.
(* scan, reserve, patch the header, and form the byte stream whose pages are hashed *)
Definition macho_plan (f : bytes) (hash_size ent_len req_len : Z) : result mplan :=
  if negb sign_m_layout_ok then Err 99 else
  m <- scan_file f ;;
  let hdr := ztake (m_next_lc m) f in
  p <- patch_signature (zlen f) m hdr (estimate (m_code_size m) hash_size ent_len req_len) ;;
  let extended := zlen (p_hdr p) - zlen hdr in
  if mo_hdr_extended extended && (zlen f <? zlen (p_hdr p)) then Err E_EOF else
  (* Pages = LimitReader(MultiReader(header, LimitReader(r, codeSize - len(header)), zeros(padding)), sigStart) *)
  let code := ztk (mo_code_limit (m_code_size m) (zlen (p_hdr p))) (zdrop (zlen (p_hdr p)) f) in
  let stream := ztk (p_sig_start p) (p_hdr p ++ code ++ zeros (p_padding p)) in
  let consumed := zlen (p_hdr p) + Z.min (zlen code) (Z.max 0 (p_sig_start p - zlen (p_hdr p))) in
  let old := if mo_reads_old_sig (m_sig_len m) then Some (ztk (m_sig_len m) (zdrop consumed f)) else None in
  Ok (mkMP m p stream old).

Section WithHashM.
  Variable H : Z -> bytes -> bytes.

  (* SignatureParams.DefaultsFromSignature *)
  Definition defaults_from_signature (p : sparams) (old : option bytes) : result sparams :=
    match old with
    | None => Ok p
    | Some blob =>
        match parse_signature H blob with
        | Ok s =>
            let copy_ent := negb (isSome (sp_ent p)) && isSome (sg_ent s) in
            let ent := if copy_ent then Some (zdrop 8 (obytes (sg_ent s))) else sp_ent p in
            let der := if copy_ent && negb (isSome (sp_der p)) && isSome (sg_der s) then Some (zdrop 8 (obytes (sg_der s))) else sp_der p in
            match best_dir (sg_dirs s) None with
            | None => Ok (mkSP (sp_hash p) (sp_info p) (sp_res p) (sp_flags p) (sp_req p) ent der (sp_rep p) (sp_ident p) (sp_team p) (sp_esb p) (sp_esl p) (sp_esf p))
            | Some d =>
                let flags := if sp_flags p =? 0 then Z.ldiff (h_flags (d_hdr d)) (Z.lor cs_flag_adhoc cs_flag_linker_signed) else sp_flags p in
                let keep := negb ((sp_esb p =? 0) && (sp_esl p =? 0) && (sp_esf p =? 0)) in
                Ok (mkSP (sp_hash p) (sp_info p) (sp_res p) flags (sp_req p) ent der (sp_rep p) (sp_ident p) (sp_team p)
                         (if keep then sp_esb p else h_esbase (d_hdr d)) (if keep then sp_esl p else h_eslimit (d_hdr d)) (if keep then sp_esf p else h_esflags (d_hdr d)))
            end
        | Err _ => Err E_OLDSIG
        | Panic e => Panic e
        end
    end.

  Record msigned := mkMS { ms_plan : mplan; ms_splan : splan; ms_params : sparams }.
  (* everything up to the PKCS#7 signature: the code directory to be signed is pl_content (ms_splan) *)
  (* req_given: length of the requirements parameter as given by the caller (the estimate is taken before DefaultsFromBundle fills it in) *)
  Definition macho_prepare (req_given : Z) (f : bytes) (p : sparams) : result msigned :=
    mp <- macho_plan f (go_hash_size (sp_hash p)) (zlen (obytes (sp_ent p))) req_given ;;
    p' <- defaults_from_signature p (mp_old_sig mp) ;;
    pl <- sign_plan H (sign_hash_list p') p' (mp_stream mp) ;;
    Ok (mkMS mp pl p').
  (* ... and from the PKCS#7 blob to the signed file *)
  Definition macho_finish (f : bytes) (ms : msigned) (cms : bytes) : result bytes :=
    let blob := sign_finish (ms_splan ms) cms in
    let pt := mp_patched (ms_plan ms) in
    if mo_blob_overflows (zlen blob) (p_sig_buf_len pt) then Err E_OVERFLOW else
    apply_patches f (patch_list pt (blob ++ zeros (p_sig_buf_len pt - zlen blob))).
  Definition macho_hashin (rg : Z) (p : sparams) (f : bytes) : result bytes := ms <- macho_prepare rg f p ;; Ok (pl_content (ms_splan ms)).
  Definition macho_embed (rg : Z) (p : sparams) (f cms : bytes) : result bytes := ms <- macho_prepare rg f p ;; macho_finish f ms cms.
End WithHashM.

(* ================================================================== SPEC: a thin Mach-O image, from <mach-o/loader.h>
   struct mach_header(_64) { magic, cputype, cpusubtype, filetype, ncmds, sizeofcmds, flags (, reserved) }; load commands follow,
   each struct load_command { cmd, cmdsize } ...; LC_CODE_SIGNATURE is a linkedit_data_command { cmd, cmdsize = 16, dataoff, datasize } *)
Record lcmd := mkLC { lc_pos : Z; lc_cmd : Z; lc_raw : bytes }.
Record image := mkImg { im_le : bool; im_64 : bool; im_hdr_end : Z; im_cmds : list lcmd; im_cmds_end : Z }.
Fixpoint spec_cmds (n : nat) (le : bool) (f : bytes) (pos lim : Z) : option (list lcmd) :=
  match n with
  | O => Some []
  | S k =>
      if lim <? pos + 8 then None else
      let sz := rdf le (pos + 4) 4 f in
      if (sz <? 8) || (lim <? pos + sz) then None else
      match spec_cmds k le f (pos + sz) lim with
      | Some r => Some (mkLC pos (rdf le pos 4 f) (zslice pos (pos + sz) f) :: r)
      | None => None
      end
  end.
Definition spec_image (f : bytes) : option image :=
  if zlen f <? 28 then None else
  let mb := be_dec (ztake 4 f) in let ml := le_dec (ztake 4 f) in
  let o := if (mb =? 4277009102) || (mb =? 4277009103) then Some (false, mb =? 4277009103)          (* MH_MAGIC, MH_MAGIC_64 *)
           else if (ml =? 4277009102) || (ml =? 4277009103) then Some (true, ml =? 4277009103) else None in
  match o with
  | None => None
  | Some (le, is64) =>
      let hdr_end := if is64 then 32 else 28 in
      let ncmds := rdf le 16 4 f in let sizeofcmds := rdf le 20 4 f in
      if (zlen f <? hdr_end + sizeofcmds) || (sizeofcmds <? 8 * ncmds) then None else       (* every load command has at least 8 bytes *)
      match spec_cmds (Z.to_nat ncmds) le f hdr_end (hdr_end + sizeofcmds) with
      | Some cs => Some (mkImg le is64 hdr_end cs (hdr_end + sizeofcmds))
      | None => None
      end
  end.
Definition is_cs (c : lcmd) : bool := lc_cmd c =? 29.
(* the code signature of an image: (dataoff, datasize) of the first LC_CODE_SIGNATURE *)
Definition spec_codesig (im : image) : option (Z * Z) :=
  match find is_cs (im_cmds im) with
  | Some c => if zlen (lc_raw c) =? 16 then Some (rdf (im_le im) 8 4 (lc_raw c), rdf (im_le im) 12 4 (lc_raw c)) else None
  | None => None
  end.
Definition seg_name (c : lcmd) : bytes := cstr16 (zslice 8 24 (lc_raw c)).
Definition is_linkedit (c : lcmd) : bool :=
  ((lc_cmd c =? 1) || (lc_cmd c =? 25)) && bytes_eqb (seg_name c) [95; 95; 76; 73; 78; 75; 69; 68; 73; 84].
(* a load command with the fields that describe the signature blanked: vmsize and filesize of __LINKEDIT *)
Definition blank_linkedit (le : bool) (c : lcmd) : bytes :=
  if negb (is_linkedit c) then lc_raw c
  else if lc_cmd c =? 25 then ztake 32 (lc_raw c) ++ zeros 8 ++ zslice 40 48 (lc_raw c) ++ zeros 8 ++ zdrop 56 (lc_raw c)
  else ztake 28 (lc_raw c) ++ zeros 4 ++ zslice 32 36 (lc_raw c) ++ zeros 4 ++ zdrop 40 (lc_raw c).
(* where the signed code ends: the signature offset when signed, else the end of __LINKEDIT *)
Definition spec_code_end (im : image) : Z :=
  match spec_codesig im with
  | Some (off, size) => if size =? 0 then -1 else off
  | None => match find is_linkedit (im_cmds im) with
            | Some c => if lc_cmd c =? 25 then rdf (im_le im) 40 8 (lc_raw c) + rdf (im_le im) 48 8 (lc_raw c)
                        else rdf (im_le im) 32 4 (lc_raw c) + rdf (im_le im) 36 4 (lc_raw c)
            | None => -1
            end
  end.
(* PAYLOAD: header fields other than ncmds / sizeofcmds; the load commands other than LC_CODE_SIGNATURE with the __LINKEDIT sizes blanked;
   the file content from behind the load command area (16 bytes of header padding are reserved for the signature command of an unsigned
   image) up to the end of the code *)
Definition spec_payload (f : bytes) : option (bytes * list bytes * bytes) :=
  match spec_image f with
  | None => None
  | Some im =>
      let body_start := im_cmds_end im + (if existsb is_cs (im_cmds im) then 0 else 16) in
      Some (ztake 16 f ++ zslice 24 (im_hdr_end im) f,
            map (blank_linkedit (im_le im)) (filter (fun c => negb (is_cs c)) (im_cmds im)),
            ztk (spec_code_end im - body_start) (zdp body_start f) ++ zeros ((- spec_code_end im) mod 8))     (* a new signature starts at the next multiple of 8 *)
  end.
(* what readSigBlob (through debug/macho) finds: the bytes the first LC_CODE_SIGNATURE points to *)
Definition macho_extract_blob (f : bytes) : result (option bytes) :=
  match spec_image f with
  | None => Err E_MAGICNUM
  | Some im =>
      match find (fun c => negb (mo_v_not_cs (lc_cmd c))) (im_cmds im) with
      | None => Ok None
      | Some c =>
          if mo_v_cmd_len_bad (zlen (lc_raw c)) then Err E_CSLEN else
          let off := rdf (im_le im) mo_v_off_at 4 (lc_raw c) in let len := rdf (im_le im) mo_v_len_at 4 (lc_raw c) in
          if mo_v_too_large len then Err E_CSLEN else
          if zlen f <? off + len then Err E_EOF else Ok (Some (zslice off (off + len) f))
      end
  end.

(* ================================================================== a minimal image, for the witnesses and the computed instances *)
(* mach_header_64 (little endian, MH_EXECUTE, 1 load command of 72 bytes), segment_command_64 __LINKEDIT (fileoff 120, filesize 8),
   16 bytes of header padding, 8 bytes of link edit data: 128 bytes, the code ends at 128 *)
Definition w_macho : bytes :=
  le_enc 4 4277009103 ++ le_enc 4 16777223 ++ le_enc 4 3 ++ le_enc 4 2 ++ le_enc 4 1 ++ le_enc 4 72 ++ le_enc 4 0 ++ le_enc 4 0 ++
  le_enc 4 25 ++ le_enc 4 72 ++ [95; 95; 76; 73; 78; 75; 69; 68; 73; 84; 0; 0; 0; 0; 0; 0] ++ le_enc 8 4096 ++ le_enc 8 4096 ++ le_enc 8 120 ++ le_enc 8 8 ++
  le_enc 4 7 ++ le_enc 4 1 ++ le_enc 4 0 ++ le_enc 4 0 ++ zeros 16 ++ [1; 2; 3; 4; 5; 6; 7; 8].
(* the same image with 3 bytes behind __LINKEDIT shortened to end at 125: code size 125, padding 3, and 2 trailing bytes *)
Definition w_macho_trailing : bytes :=
  le_enc 4 4277009103 ++ le_enc 4 16777223 ++ le_enc 4 3 ++ le_enc 4 2 ++ le_enc 4 1 ++ le_enc 4 72 ++ le_enc 4 0 ++ le_enc 4 0 ++
  le_enc 4 25 ++ le_enc 4 72 ++ [95; 95; 76; 73; 78; 75; 69; 68; 73; 84; 0; 0; 0; 0; 0; 0] ++ le_enc 8 4096 ++ le_enc 8 4096 ++ le_enc 8 120 ++ le_enc 8 5 ++
  le_enc 4 7 ++ le_enc 4 1 ++ le_enc 4 0 ++ le_enc 4 0 ++ zeros 16 ++ [1; 2; 3; 4; 5; 6; 7; 8].
(* an image without __LINKEDIT: the segment is called __LINKEDIX *)
Definition w_macho_nolinkedit : bytes :=
  le_enc 4 4277009103 ++ le_enc 4 16777223 ++ le_enc 4 3 ++ le_enc 4 2 ++ le_enc 4 1 ++ le_enc 4 72 ++ le_enc 4 0 ++ le_enc 4 0 ++
  le_enc 4 25 ++ le_enc 4 72 ++ [95; 95; 76; 73; 78; 75; 69; 68; 73; 88; 0; 0; 0; 0; 0; 0] ++ le_enc 8 4096 ++ le_enc 8 4096 ++ le_enc 8 120 ++ le_enc 8 8 ++
  le_enc 4 7 ++ le_enc 4 1 ++ le_enc 4 0 ++ le_enc 4 0 ++ zeros 16 ++ [1; 2; 3; 4; 5; 6; 7; 8].
Definition w_sparams (ident : bytes) : sparams := mkSP 5 None None 65536 None None None None ident [] 0 0 0.

(* the markers of an unsigned image on which the patches of a fresh signature are proved (ProofsM.fresh_patches): no signature command yet,
   the __LINKEDIT command lies inside the load commands, 16 bytes of room behind them in front of the first section and of the code end *)
Definition fresh_ok (m : markers) (f : bytes) : bool :=
  (m_load_cs m =? 0) && (m_sig_len m =? 0) && (m_sig_start m =? 0) && (28 <=? m_le_pos m) &&
  (m_le_pos m + (if mo_le_is_64 (m_magic m) then 56 else 40) <=? m_next_lc m) &&
  (m_next_lc m + 16 <=? m_first_sh m) && (m_next_lc m + 16 <=? m_code_size m) && (m_code_size m <=? zlen f).
