(* FmtMACHO/ProofsVP.v — theorems about the GENERATED program vp_prog (Generated/FmtMACHO_gen.v: the body of csblob SigBlob.VerifyPages
   translated statement by statement) under the interpreter of FmtMACHO/VpLang.v, and about the generated cs_code_size_of (CodeSize).
   1. vp_exec_eq: for EVERY header value (page size byte, signed 64 bit code size incl. negative values and MinInt64 — the expressions of the
      program wrap like Go's int64), every slot list and every reader content the program equals the closed function vp_fun
      (no panic: every `page[:remaining]` and `make([]byte, pageSize)` it executes is in range).
   2. the independent SPECIFICATION of the page hashes (cs_blobs.h / Apple's CodeDirectory::checkIntegrity + validateSlot: slot i is the digest of
      page i of the first codeLimit bytes, pages of 2^pageSize bytes, the last one short; pageSize 0 = one slot over everything) and
      vp_accepts_iff: exactly when the program accepts, for all inputs; on directories whose slot count is the page count of the code size,
      accepts <-> specification for every paged directory (since relic 086958a / bd61613; the former witnesses few_slots_refuted and
      negative_no_slots_refuted are the regression theorems few_slots_rejected, negative_limit_rejected). *)
From Relic Require Import Base.Prelude Base.Enc FmtMACHO.VpLang Generated.FmtMACHO_gen.
From Relic Require C09.Model C09.Proofs.

Definition vp_body : list vstmt := match nth 9 vp_prog SBestDir with SRange b => b | _ => [] end.

Lemma s64_id x : -9223372036854775808 <= x < 9223372036854775808 -> mm_s64 x = x.
Proof. intros Hx. unfold mm_s64. rewrite Z.mod_small by lia. lia. Qed.
Lemma s64_range x : -9223372036854775808 <= mm_s64 x < 9223372036854775808.
Proof. unfold mm_s64. pose proof (Z.mod_pos_bound (x + 9223372036854775808) 18446744073709551616 ltac:(lia)). lia. Qed.
Lemma ztake_app_exact {A} k (a b : list A) : zlen a = k -> ztake k (a ++ b) = a.
Proof. intros Hk. rewrite ztake_app_l by lia. apply ztake_all. lia. Qed.
Lemma exec_list_app H c l1 : forall l2 s, exec_list H c (l1 ++ l2) s = match exec_list H c l1 s with VNext s' => exec_list H c l2 s' | o => o end.
Proof. induction l1 as [|x r IH]; intros l2 s; [reflexivity|]. cbn [app exec_list]. destruct (exec1 H c x s); [apply IH|reflexivity|reflexivity]. Qed.
(* the shape the proofs below rely on: nine statements (the sign check of relic bd61613 among them), the range loop, the coverage check behind it
   (relic 086958a), return nil *)
Definition vp_after : vstmt := nth 10 vp_prog SBestDir.
Lemma prog_split : vp_prog = firstn 9 vp_prog ++ [SRange vp_body; vp_after; SRet 0].
Proof. reflexivity. Qed.
Lemma pow2_bounds n : 1 <= n <= 20 -> 2 <= 2 ^ n <= 1048576.
Proof. intros Hn. split; [apply (Z.pow_le_mono_r 2 1 n); lia|change 1048576 with (2 ^ 20); apply Z.pow_le_mono_r; lia]. Qed.
Lemma zlen_vzeros n : 0 <= n -> zlen (vzeros n) = n.
Proof. intros Hn. unfold zlen, vzeros. rewrite repeat_length. lia. Qed.

(* ------------------------------------------------------------------ the closed function *)
Section Fun.
  Variable H : Z -> bytes -> bytes.
  (* the range loop: error class, 0 = all slots matched *)
  Fixpoint pages_run (hf ps : Z) (hs : list bytes) (r : Z) (rd : bytes) : Z :=
    match hs with
    | [] => 0
    | e :: t =>
        if r <=? 0 then 10 else
        let k := Z.min r ps in
        if zlen rd <? k then 1 else
        if bytes_eqb (H hf (ztake k rd)) e then pages_run hf ps t (r - k) (zdrop k rd) else 6
    end.
  (* what is left of the code size behind the last slot *)
  Fixpoint rem_after (ps : Z) (hs : list bytes) (r : Z) : Z :=
    match hs with [] => r | _ :: t => rem_after ps t (r - Z.min r ps) end.
  Definition vp_fun (c : vin) (rd : bytes) : result unit :=
    if i_none c then Err 7 else
    let r := mm_s64 (i_code_size c) in
    if r <? 0 then Err 10 else
    if i_log2 c =? 0 then
      if negb (zlen (i_hashes c) =? 1) then Err 10
      else if negb (zlen rd =? r) then Err 10
      else if bytes_eqb (H (i_hfun c) rd) (hd [] (i_hashes c)) then Ok tt else Err 6
    else if i_log2 c >? 20 then Err 10
    else let code := pages_run (i_hfun c) (2 ^ i_log2 c) (i_hashes c) r rd in
         if code =? 0 then (if rem_after (2 ^ i_log2 c) (i_hashes c) r >? 0 then Err 10 else Ok tt) else Err code.
  Lemma pages_run_codes hf ps : forall hs r rd, pages_run hf ps hs r rd = 0 \/ pages_run hf ps hs r rd = 10 \/ pages_run hf ps hs r rd = 1 \/ pages_run hf ps hs r rd = 6.
  Proof.
    induction hs as [|e t IH]; intros r rd; cbn [pages_run]; [left; reflexivity|].
    destruct (r <=? 0); [auto|]. cbv zeta. destruct (_ <? _); [auto|]. destruct (bytes_eqb _ _); [apply IH|auto].
  Qed.
End Fun.

(* ------------------------------------------------------------------ the program equals the closed function *)
Section Exec.
  Variable H : Z -> bytes -> bytes.
  Local Arguments mm_s64 : simpl never.
  Local Arguments zlen : simpl never.
  Local Arguments ztake : simpl never.
  Local Arguments zdrop : simpl never.
  Local Arguments bytes_eqb : simpl never.
  Local Arguments Z.leb : simpl never.
  Local Arguments Z.ltb : simpl never.
  Local Arguments Z.gtb : simpl never.
  Local Arguments Z.eqb : simpl never.
  Local Arguments Z.sub : simpl never.
  Local Arguments Z.min : simpl never.
  Local Arguments Z.shiftl : simpl never.
  Local Arguments vzeros : simpl never.

  (* one iteration of `for i, expected := range dir.CodeHashes`: whenever remaining > 0 the page buffer has its full length *)
  Lemma body_step c rem ps back plen rd acc comp err n i0 e0 i e :
    1 <= ps < 9223372036854775808 -> zlen back = ps -> (0 < rem -> plen = ps) -> -9223372036854775808 <= rem < 9223372036854775808 ->
    exec_list H c vp_body (set_loop (mkVst rem ps back plen rd acc comp err n i0 e0) i e) =
      if rem <=? 0 then VRet 10 else
      let k := Z.min rem ps in
      if zlen rd <? k then VRet 1 else
      if bytes_eqb (H (i_hfun c) (ztake k rd)) e
      then VNext (mkVst (rem - k) ps (ztake k rd ++ zdrop k back) k (zdrop k rd) (ztake k rd) (H (i_hfun c) (ztake k rd)) false n i e)
      else VRet 6.
  Proof.
    intros Hps Hb Hpl Hr. unfold vp_body, vp_prog. cbn.
    destruct (rem <=? 0) eqn:E1; [reflexivity|].
    assert (Hp : plen = ps) by (apply Hpl; lia). subst plen.
    (* the comparison that decides about the reslice: whatever operator the source uses, as long as it separates rem < ps from rem > ps *)
    lazymatch goal with |- context [match (if ?cnd then _ else _) with _ => _ end] => destruct cnd eqn:E2 end.
    - replace ((rem <? 0) || (zlen back <? rem)) with false by lia.
      cbn. replace (Z.min rem ps) with rem by lia. unfold do_read_full. cbn.
      destruct (zlen rd <? rem) eqn:E3; cbn; [reflexivity|].
      rewrite (ztake_app_exact rem) by (rewrite zlen_ztake; lia).
      destruct (bytes_eqb _ e); cbn; [|reflexivity].
      rewrite (s64_id rem) by lia. rewrite s64_id by lia. reflexivity.
    - cbn. replace (Z.min rem ps) with ps by lia. unfold do_read_full. cbn.
      destruct (zlen rd <? ps) eqn:E3; cbn; [reflexivity|].
      rewrite (ztake_app_exact ps) by (rewrite zlen_ztake; lia).
      destruct (bytes_eqb _ e); cbn; [|reflexivity].
      rewrite (s64_id ps) by lia. rewrite s64_id by lia. reflexivity.
  Qed.

  Lemma range_run c ps : 1 <= ps < 9223372036854775808 -> forall hs i rem back plen rd acc comp err n i0 e0,
    zlen back = ps -> (0 < rem -> plen = ps) -> -9223372036854775808 <= rem < 9223372036854775808 ->
    match exec_range H c vp_body hs i (mkVst rem ps back plen rd acc comp err n i0 e0) with
    | VNext s' => pages_run H (i_hfun c) ps hs rem rd = 0 /\ s_remaining s' = rem_after ps hs rem
    | VRet code => code = pages_run H (i_hfun c) ps hs rem rd /\ code <> 0
    | VPanic _ => False
    end.
  Proof.
    intros Hps. induction hs as [|e t IH]; intros i rem back plen rd acc comp err n i0 e0 Hb Hpl Hr; cbn [exec_range pages_run rem_after]; [split; reflexivity|].
    rewrite (body_step c rem ps back plen rd acc comp err n i0 e0 i e Hps Hb Hpl Hr).
    destruct (rem <=? 0) eqn:E1; [split; [reflexivity|discriminate]|]. cbv zeta.
    destruct (zlen rd <? Z.min rem ps) eqn:E2; [split; [reflexivity|discriminate]|].
    destruct (bytes_eqb _ e); [|split; [reflexivity|discriminate]].
    apply IH.
    - rewrite zlen_app, zlen_ztake, zlen_zdrop by lia. lia.
    - lia.
    - lia.
  Qed.

  (* THE TIE: for every input the generated program is the closed function; in particular it never panics.
     Hypotheses: the page size field is a byte (only 0 <= is needed), an allocation of the largest supported page is permitted. *)
  Theorem vp_exec_eq c rd : 0 <= i_log2 c -> 1048576 <= i_alloc_limit c -> vp_exec H c vp_prog rd = vp_fun H c rd.
  Proof.
    destruct c as [none log2 hashes hf cs lim]. cbn [i_log2 i_alloc_limit]. intros Hl Hlim.
    unfold vp_exec, vp_fun. cbn [i_none i_log2 i_hashes i_hfun i_code_size].
    rewrite prog_split, exec_list_app.
    remember (exec_list H _ (SRange vp_body :: _)) as tl eqn:Htl. unfold vp_prog at 1. cbn.
    destruct none; [reflexivity|]. cbn.
    destruct (mm_s64 cs <? 0) eqn:Eneg; cbn; [reflexivity|].
    destruct (log2 =? 0) eqn:E0.
    { destruct (zlen hashes =? 1); cbn; [|reflexivity].
      destruct (zlen rd =? mm_s64 cs); cbn; [|reflexivity].
      destruct (bytes_eqb _ _); reflexivity. }
    cbn. change cs_max_page_log2 with 20. destruct (log2 >? 20) eqn:E1; cbn; [reflexivity|].
    assert (Hn : 1 <= log2 <= 20) by lia. pose proof (pow2_bounds log2 Hn) as Hp.
    rewrite Z.shiftl_1_l. rewrite (s64_id (2 ^ log2)) by lia. rewrite (s64_id (2 ^ log2)) by lia.
    replace (2 ^ log2 <? 0) with false by lia. replace (lim <? 2 ^ log2) with false by lia. cbn.
    subst tl. cbn [exec_list]. rewrite exec1_range. cbn [i_hashes].
    cbn [set_acc set_page set_page_size set_remaining vp_init s_remaining s_page_size s_back s_plen s_rd s_acc s_computed s_err s_n s_i s_expected].
    pose proof (range_run (mkVin false log2 hashes hf cs lim) (2 ^ log2) ltac:(lia) hashes 0 (mm_s64 cs) (vzeros (2 ^ log2)) (2 ^ log2) rd [] [] false 0 0 []
                  (zlen_vzeros (2 ^ log2) ltac:(lia)) (fun _ => eq_refl) (s64_range cs)) as Hrun.
    cbn [i_hfun] in Hrun.
    match type of Hrun with match ?x with _ => _ end =>
      match goal with |- match match ?y with _ => _ end with _ => _ end = _ => change y with x end; destruct x as [s'|code|p] end.
    - destruct Hrun as [Hrun Hrem]. rewrite Hrun. change (0 =? 0) with true. cbv iota.
      unfold vp_after, vp_prog. cbn [nth]. rewrite exec1_if. rewrite Hrem.
      destruct (rem_after (2 ^ log2) hashes (mm_s64 cs) >? 0); reflexivity.
    - destruct Hrun as [-> Hnz]. destruct (pages_run H hf (2 ^ log2) hashes (mm_s64 cs) rd =? 0) eqn:Ez; [lia|reflexivity].
    - destruct Hrun.
  Qed.

  Theorem vp_no_panic c rd p : 0 <= i_log2 c -> 1048576 <= i_alloc_limit c -> vp_exec H c vp_prog rd <> Panic p.
  Proof.
    intros Hl Hlim. rewrite vp_exec_eq by assumption. unfold vp_fun.
    destruct (i_none c); [discriminate|]. cbv zeta. destruct (_ <? 0); [discriminate|].
    destruct (i_log2 c =? 0). { destruct (negb _); [discriminate|]. destruct (negb _); [discriminate|]. destruct (bytes_eqb _ _); discriminate. }
    destruct (i_log2 c >? 20); [discriminate|]. destruct (_ =? 0); [destruct (_ >? 0)|]; discriminate.
  Qed.
End Exec.

(* ------------------------------------------------------------------ SPECIFICATION (cs_blobs.h; Security.framework CodeDirectory::checkIntegrity, StaticCode::validateExecutable) *)
(* ------------------------------------------------------------------ list facts *)
(* ---- the loop against the chunks of unit C09 *)
Lemma ztake_ztake {A} a b (l : list A) : 0 <= a -> 0 <= b -> ztake a (ztake b l) = ztake (Z.min a b) l.
Proof. intros Ha Hb. unfold ztake. rewrite firstn_firstn. f_equal. lia. Qed.
Lemma zdrop_ztake {A} a b (l : list A) : 0 <= a <= b -> zdrop a (ztake b l) = ztake (b - a) (zdrop a l).
Proof. intros Hab. unfold ztake, zdrop. rewrite skipn_firstn_comm. f_equal. lia. Qed.
Lemma ztake_nonnil {A} n (l : list A) : 0 < n -> 0 < zlen l -> ztake n l <> [].
Proof. intros Hn Hl. destruct l; [cbn in Hl; lia|]. unfold ztake. destruct (Z.to_nat n) eqn:E; [lia|]. discriminate. Qed.
Lemma beq a b : bytes_eqb a b = true <-> a = b.
Proof. apply list_eqb_Z_eq. Qed.
Lemma chunks_of_nonpos ps r (rd : bytes) : r <= 0 -> C09.Model.chunks ps (ztake r rd) = [].
Proof. intros Hr. rewrite ztake_neg by lia. reflexivity. Qed.


(* number of pages of cs bytes *)
Definition pages_of (ps cs : Z) : Z := (cs + ps - 1) / ps.
Lemma length_chunks ps : 0 < ps -> forall l, zlen (C09.Model.chunks ps l) = pages_of ps (zlen l).
Proof.
  intros Hps l. remember (length l) as n eqn:Hn. revert l Hn.
  induction n as [n IH] using (well_founded_induction lt_wf). intros l Hn.
  destruct l as [|x l'].
  { cbn. unfold pages_of. cbn. symmetry. apply Z.div_small. lia. }
  rewrite (C09.Proofs.chunks_step ps Hps (x :: l') ltac:(discriminate)). rewrite zlen_cons.
  rewrite (IH (length (zdrop ps (x :: l')))); [|subst n; rewrite C09.Proofs.length_zdrop; cbn [length]; lia|reflexivity].
  rewrite C09.Proofs.zlen_zdrop_max by lia. set (m := zlen (x :: l')). assert (Hm : 0 < m) by (unfold m; rewrite zlen_cons; pose proof (zlen_nonneg l'); lia).
  unfold pages_of. destruct (Z.max_spec 0 (m - ps)) as [[Hlt ->]|[Hge ->]].
  - replace (m + ps - 1) with ((m - ps + ps - 1) + 1 * ps) by lia. rewrite Z.div_add by lia. lia.
  - replace ((0 + ps - 1) / ps) with 0 by (symmetry; apply Z.div_small; lia). symmetry. replace (m + ps - 1) with (m - 1 + 1 * ps) by lia.
    rewrite Z.div_add by lia. rewrite Z.div_small by lia. reflexivity.
Qed.

Section Spec.
  Variable H : Z -> bytes -> bytes.
  (* the code slots of a directory over `code`: one digest per page of 2^log2 bytes (the last page short, none for empty code);
     page size 0 ("infinite", disk images): a single slot over everything *)
  Definition spec_code_slots (hf log2 : Z) (code : bytes) : list bytes :=
    if log2 =? 0 then [H hf code] else map (H hf) (C09.Model.chunks (2 ^ log2) code).
  (* a directory with code limit cs and these slots describes the region rd: the limit lies inside the region and the slots are those of
     the first cs bytes *)
  Definition spec_pages_ok (hf log2 cs : Z) (slots : list bytes) (rd : bytes) : Prop :=
    0 <= cs <= zlen rd /\ slots = spec_code_slots hf log2 (ztake cs rd).

  (* all slots match exactly when: they are the digests of the first |hs| pages of the first r bytes, there are that many pages, and the
     reader holds every byte of those pages *)
  Lemma pages_run_ok hf ps : 0 < ps -> forall hs r rd,
    pages_run H hf ps hs r rd = 0 <->
    (hs = map (H hf) (firstn (length hs) (C09.Model.chunks ps (ztake r rd))) /\
     (length hs <= length (C09.Model.chunks ps (ztake r rd)))%nat /\ Z.min r (zlen hs * ps) <= zlen rd).
  Proof.
    intros Hps. induction hs as [|e t IH]; intros r rd; cbn [pages_run].
    { split; [intros _|reflexivity]. cbn. pose proof (zlen_nonneg rd). repeat split; lia. }
    destruct (r <=? 0) eqn:Er.
    { split; [discriminate|]. intros (_ & Hl & _). rewrite chunks_of_nonpos in Hl by lia. cbn in Hl. lia. }
    cbv zeta. set (k := Z.min r ps). assert (Hk : 0 < k <= ps /\ k <= r) by (unfold k; lia).
    rewrite zlen_cons.
    destruct (zlen rd <? k) eqn:Ed.
    { split; [discriminate|]. intros (_ & _ & Hm). pose proof (zlen_nonneg t). exfalso. unfold k in *. nia. }
    assert (Hne : ztake r rd <> []) by (apply ztake_nonnil; lia).
    rewrite (C09.Proofs.chunks_step ps Hps _ Hne). rewrite ztake_ztake by lia. replace (Z.min ps r) with k by (unfold k; lia).
    cbn [length firstn map].
    destruct (r <? ps) eqn:Es.
    - (* the last, short page *)
      assert (Hkr : k = r) by (unfold k; lia).
      assert (Hrest : C09.Model.chunks ps (zdrop ps (ztake r rd)) = []).
      { rewrite zdrop_all; [reflexivity|]. rewrite C09.Proofs.zlen_ztake_min by lia. lia. }
      rewrite Hrest. destruct (bytes_eqb (H hf (ztake k rd)) e) eqn:Ee.
      + apply beq in Ee. rewrite IH. rewrite Hkr, Z.sub_diag, chunks_of_nonpos by lia.
        split.
        * intros (Ht & Hl & _). cbn in Hl. destruct t; [|cbn in Hl; lia]. cbn. repeat split; [congruence|lia|lia].
        * intros (Ht & Hl & _). cbn in Hl. destruct t; [|cbn in Hl; lia]. cbn. pose proof (zlen_nonneg (zdrop r rd)). repeat split; lia.
      + split; [discriminate|]. intros (Ht & _). injection Ht as Ht _. symmetry in Ht. apply beq in Ht. congruence.
    - assert (Hkp : k = ps) by (unfold k; lia).
      rewrite zdrop_ztake by lia.
      destruct (bytes_eqb (H hf (ztake k rd)) e) eqn:Ee.
      + apply beq in Ee. rewrite IH. rewrite Hkp in *.
        assert (Hz : zlen (zdrop ps rd) = zlen rd - ps) by (apply zlen_zdrop; lia).
        split.
        * intros (Ht & Hl & Hm). repeat split; [congruence|lia|lia].
        * intros (Ht & Hl & Hm). injection Ht as _ Ht. repeat split; [exact Ht|lia|lia].
      + split; [discriminate|]. intros (Ht & _). injection Ht as Ht _. symmetry in Ht. apply beq in Ht. congruence.
  Qed.

End Spec.

(* ------------------------------------------------------------------ acceptance *)
Section Accept.
  Variable H : Z -> bytes -> bytes.
  Implicit Type c : vin.

  Lemma rem_after_closed ps : 0 < ps -> forall hs r, 0 <= r -> rem_after ps hs r = Z.max 0 (r - zlen hs * ps).
  Proof.
    intros Hps. induction hs as [|e t IH]; intros r Hr; cbn [rem_after]; [unfold zlen; cbn [length]; lia|].
    rewrite IH by lia. rewrite zlen_cons. assert (0 <= zlen t * ps) by (pose proof (zlen_nonneg t); nia). lia.
  Qed.
  Lemma pages_of_bounds ps r : 0 < ps -> r <= pages_of ps r * ps /\ forall n, r <= n * ps -> pages_of ps r <= n.
  Proof.
    intros Hps. unfold pages_of. pose proof (Z.div_mod (r + ps - 1) ps ltac:(lia)) as Hd. pose proof (Z.mod_pos_bound (r + ps - 1) ps ltac:(lia)) as Hm.
    split; [nia|]. intros n Hn. apply Z.lt_succ_r. apply Z.div_lt_upper_bound; [lia|]. nia.
  Qed.
  (* all slots match AND nothing of the code size is left behind the last slot (relic 086958a) <-> the slots are the digests of ALL pages of the first
     r bytes, which the reader holds; or there is nothing to cover (r <= 0) and there is no slot *)
  Lemma cover_iff hf ps : 0 < ps -> forall hs r rd,
    (pages_run H hf ps hs r rd = 0 /\ rem_after ps hs r <= 0) <->
    (r <= 0 /\ hs = [] \/ 0 < r <= zlen rd /\ hs = map (H hf) (C09.Model.chunks ps (ztake r rd))).
  Proof.
    intros Hps hs r rd. rewrite (pages_run_ok H hf ps Hps). split.
    - intros [(Hh & Hl & Hm) Hrem]. destruct (Z.le_gt_cases r 0) as [Hr|Hr].
      + left. split; [exact Hr|]. rewrite chunks_of_nonpos in Hl by lia. destruct hs; [reflexivity|cbn in Hl; lia].
      + right. rewrite rem_after_closed in Hrem by lia. assert (Hcov : r <= zlen hs * ps) by lia.
        assert (Hlen : r <= zlen rd) by lia. split; [lia|].
        assert (Hc : zlen (C09.Model.chunks ps (ztake r rd)) = pages_of ps r) by (rewrite (length_chunks ps Hps), zlen_ztake by lia; reflexivity).
        destruct (pages_of_bounds ps r Hps) as [_ Hle]. specialize (Hle _ Hcov).
        rewrite Hh at 1. f_equal. apply firstn_all2. unfold zlen in *. lia.
    - intros [[Hr ->]|[Hr ->]].
      + cbn. rewrite chunks_of_nonpos by lia. pose proof (zlen_nonneg rd). repeat split; cbn; lia.
      + assert (Hc : zlen (C09.Model.chunks ps (ztake r rd)) = pages_of ps r) by (rewrite (length_chunks ps Hps), zlen_ztake by lia; reflexivity).
        destruct (pages_of_bounds ps r Hps) as [Hge _].
        assert (Hz : zlen (map (H hf) (C09.Model.chunks ps (ztake r rd))) = pages_of ps r) by (unfold zlen in *; rewrite map_length; exact Hc).
        rewrite map_length, firstn_all. repeat split; [lia|rewrite Hz; lia|].
        rewrite rem_after_closed by lia. rewrite Hz. lia.
  Qed.

  Lemma cover_nonneg hf ps hs r rd : 0 <= r ->
    (r <= 0 /\ hs = [] \/ 0 < r <= zlen rd /\ hs = map (H hf) (C09.Model.chunks ps (ztake r rd))) <->
    (0 <= r <= zlen rd /\ hs = map (H hf) (C09.Model.chunks ps (ztake r rd))).
  Proof.
    intros Hr. pose proof (zlen_nonneg rd). split.
    - intros [[Hle ->]|[Hlt ->]]; [|split; [lia|reflexivity]]. replace r with 0 by lia. split; [lia|reflexivity].
    - intros [Hle ->]. destruct (Z.eq_dec r 0) as [->|Hnz]; [left; split; [lia|reflexivity]|right; split; [lia|reflexivity]].
  Qed.

  (* exactly when VerifyPages accepts, for ALL inputs (cs = the int64 CodeSize(); hs = the code slots; rd = what the reader delivers) *)
  Definition vp_accepts c (rd : bytes) : Prop :=
    i_none c = false /\
    let cs := mm_s64 (i_code_size c) in let hs := i_hashes c in
    (i_log2 c = 0 /\ zlen rd = cs /\ hs = [H (i_hfun c) rd] \/
     1 <= i_log2 c <= 20 /\ 0 <= cs <= zlen rd /\ hs = map (H (i_hfun c)) (C09.Model.chunks (2 ^ i_log2 c) (ztake cs rd))).

  Theorem vp_accepts_iff c rd : 0 <= i_log2 c -> 1048576 <= i_alloc_limit c ->
    (vp_exec H c vp_prog rd = Ok tt <-> vp_accepts c rd).
  Proof.
    intros Hl Hlim. rewrite vp_exec_eq by assumption. unfold vp_fun, vp_accepts.
    destruct (i_none c); [split; [discriminate|intros [? _]; discriminate]|]. cbv zeta.
    set (cs := mm_s64 (i_code_size c)). set (hs := i_hashes c) in *. pose proof (zlen_nonneg rd) as Hrd.
    destruct (cs <? 0) eqn:En; [split; [discriminate|]; intros [_ [(_ & Hn & _)|(_ & Hr & _)]]; lia|].
    destruct (i_log2 c =? 0) eqn:E0.
    - assert (Hz : i_log2 c = 0) by lia.
      split.
      + destruct (zlen hs =? 1) eqn:E1; cbn [negb]; [|discriminate]. destruct (zlen rd =? cs) eqn:E2; cbn [negb]; [|discriminate].
        destruct (bytes_eqb _ _) eqn:E3; [|discriminate]. intros _. split; [reflexivity|]. left. apply beq in E3.
        apply Z.eqb_eq in E1. destruct hs as [|h [|h2 t]]; [rewrite zlen_nil in E1; lia| |rewrite !zlen_cons in E1; pose proof (zlen_nonneg t); lia].
        cbn in E3. repeat split; [exact Hz|lia|congruence].
      + intros [_ [(_ & Hn & Hh)|(Hr & _)]]; [|lia]. rewrite Hh. cbn [hd]. replace (zlen [H (i_hfun c) rd] =? 1) with true by reflexivity.
        replace (zlen rd =? cs) with true by lia. cbn [negb]. replace (bytes_eqb _ _) with true by (symmetry; apply beq; reflexivity). reflexivity.
    - destruct (i_log2 c >? 20) eqn:E1.
      + split; [discriminate|]. intros [_ [(Hz & _)|(Hr & _)]]; lia.
      + assert (Hn : 1 <= i_log2 c <= 20) by lia. pose proof (pow2_bounds _ Hn) as Hp.
        pose proof (cover_iff (i_hfun c) (2 ^ i_log2 c) ltac:(lia) hs cs rd) as Hcov.
        rewrite (cover_nonneg (i_hfun c) (2 ^ i_log2 c) hs cs rd ltac:(lia)) in Hcov.
        destruct (pages_run H (i_hfun c) (2 ^ i_log2 c) hs cs rd =? 0) eqn:Ez.
        * destruct (rem_after (2 ^ i_log2 c) hs cs >? 0) eqn:Er.
          -- split; [discriminate|]. intros [_ [(Hz & _)|(_ & Ha)]]; [lia|]. apply Hcov in Ha. lia.
          -- split; [intros _|reflexivity]. split; [reflexivity|]. right. split; [exact Hn|]. apply Hcov. lia.
        * split; [discriminate|]. intros [_ [(Hz & _)|(_ & Ha)]]; [lia|]. apply Hcov in Ha. lia.
  Qed.

  (* acceptance IS the specification — 0 <= CodeSize <= |region| and the slots are the digests of the C09 chunks of exactly the first CodeSize bytes —
     for EVERY paged directory (relic 086958a: no slot too few; bd61613: no negative code size) *)
  Theorem vp_accepts_spec c rd : 1 <= i_log2 c <= 20 -> 1048576 <= i_alloc_limit c -> i_none c = false ->
    -9223372036854775808 <= i_code_size c < 9223372036854775808 ->
    (vp_exec H c vp_prog rd = Ok tt <-> spec_pages_ok H (i_hfun c) (i_log2 c) (i_code_size c) (i_hashes c) rd).
  Proof.
    intros Hn Hlim Hnone Hcs. rewrite vp_accepts_iff by (assumption || lia). unfold vp_accepts, spec_pages_ok, spec_code_slots. rewrite Hnone. cbv zeta.
    rewrite s64_id by lia. replace (i_log2 c =? 0) with false by lia. split.
    - intros [_ [(Hz & _)|(_ & Hr & Hh)]]; [lia|split; assumption].
    - intros [Hr Hh]. split; [reflexivity|]. right. repeat split; (lia || assumption).
  Qed.

  (* every directory the specification describes is accepted *)
  Theorem spec_implies_accepts c rd : 0 <= i_log2 c <= 20 -> 1048576 <= i_alloc_limit c -> i_none c = false ->
    -9223372036854775808 <= i_code_size c < 9223372036854775808 -> (i_log2 c = 0 -> i_code_size c = zlen rd) ->
    spec_pages_ok H (i_hfun c) (i_log2 c) (i_code_size c) (i_hashes c) rd -> vp_exec H c vp_prog rd = Ok tt.
  Proof.
    intros Hl Hlim Hnone Hcs Hsingle Hs. destruct (Z.eq_dec (i_log2 c) 0) as [Hz|Hnz].
    - apply vp_accepts_iff; [lia|assumption|]. destruct Hs as [Hr Hh]. unfold vp_accepts, spec_code_slots in *. rewrite Hnone. split; [reflexivity|]. cbv zeta.
      rewrite s64_id by lia. left. replace (i_log2 c =? 0) with true in Hh by lia. rewrite ztake_all in Hh by lia. repeat split; [exact Hz|rewrite Hsingle by exact Hz; reflexivity|exact Hh].
    - apply vp_accepts_spec; try assumption; lia.
  Qed.

  (* each slot present is the digest of its page (kept for FmtMACHO.ProofsS.verify_pages_sound) *)
  Theorem vp_accepts_prefix c rd : 1 <= i_log2 c <= 20 -> 1048576 <= i_alloc_limit c -> vp_exec H c vp_prog rd = Ok tt ->
    i_hashes c = map (H (i_hfun c)) (firstn (length (i_hashes c)) (C09.Model.chunks (2 ^ i_log2 c) (ztake (mm_s64 (i_code_size c)) rd))).
  Proof.
    intros Hn Hlim. rewrite vp_exec_eq by (assumption || lia). unfold vp_fun. destruct (i_none c); [discriminate|]. cbv zeta.
    replace (i_log2 c =? 0) with false by lia. replace (i_log2 c >? 20) with false by lia. pose proof (pow2_bounds _ Hn) as Hp.
    destruct (_ <? 0); [discriminate|]. destruct (pages_run _ _ _ _ _ _ =? 0) eqn:Ez; [|discriminate]. intros _.
    apply Z.eqb_eq in Ez. apply (pages_run_ok H (i_hfun c) (2 ^ i_log2 c) ltac:(lia)) in Ez. apply Ez.
  Qed.
End Accept.

(* ------------------------------------------------------------------ CodeSize *)
(* the generated CodeSize(): the 64 bit limit when it is not zero (as a SIGNED number: values from 2^63 are negative), else the 32 bit limit *)
Theorem code_size_of_spec none l64 l32 : cs_code_size_of none l64 l32 = if none then 0 else if l64 =? 0 then l32 else l64.
Proof. unfold cs_code_size_of. destruct none; [reflexivity|]. destruct (l64 =? 0); reflexivity. Qed.

(* ------------------------------------------------------------------ witnesses (a computable digest that is never empty) *)
Definition wH (h : Z) (x : bytes) : bytes := [fold_left (fun a b => (a * 31 + b + 7) mod 251) x 1 + 1; zlen x mod 256].
Definition w_in (log2 cs : Z) (hs : list bytes) : vin := mkVin false log2 hs 5 cs 1048576.
(* regression (relic 086958a; before: finding macho:code-slots-do-not-cover-limit): page size 2^1, code size 4, ONE slot (two pages needed): refused,
   for the genuine code as for code modified behind the slot; with both slots the genuine code verifies and the modified one does not *)
Theorem few_slots_rejected :
  vp_exec wH (w_in 1 4 [wH 5 [1; 2]]) vp_prog [1; 2; 3; 4] = Err 10 /\ vp_exec wH (w_in 1 4 [wH 5 [1; 2]]) vp_prog [1; 2; 9; 9] = Err 10 /\
  ~ spec_pages_ok wH 5 1 4 [wH 5 [1; 2]] [1; 2; 3; 4] /\
  vp_exec wH (w_in 1 4 [wH 5 [1; 2]; wH 5 [3; 4]]) vp_prog [1; 2; 3; 4] = Ok tt /\ vp_exec wH (w_in 1 4 [wH 5 [1; 2]; wH 5 [3; 4]]) vp_prog [1; 2; 9; 9] = Err 6 /\
  vp_exec wH (w_in 12 9223372036854775807 [wH 5 [1; 2; 3]]) vp_prog [1; 2; 3] = Err 1 /\ vp_exec wH (w_in 12 5 []) vp_prog [1; 2; 3; 4; 5] = Err 10.
Proof. repeat split; try (vm_compute; reflexivity). intros [_ Hs]. vm_compute in Hs. discriminate. Qed.
(* regression (relic bd61613; before: finding macho:negative-limit-without-slots-accepted, and the crash class of seeded change C11-r3): a negative code size
   (CodeLimit64 >= 2^63: -1, MinInt64, an unwrapped uint64) is an ordinary error whatever the slots are — none, one — and whatever the page size is *)
Theorem negative_limit_rejected :
  vp_exec wH (w_in 12 (-1) []) vp_prog [1; 2; 3] = Err 10 /\ vp_exec wH (w_in 12 (-1) []) vp_prog [7; 7; 7; 7] = Err 10 /\ ~ spec_pages_ok wH 5 12 (-1) [] [1; 2; 3] /\
  vp_exec wH (w_in 12 (-1) [wH 5 [1; 2; 3]]) vp_prog [1; 2; 3] = Err 10 /\
  vp_exec wH (w_in 12 (-9223372036854775808) [wH 5 [1; 2; 3]]) vp_prog [1; 2; 3] = Err 10 /\
  vp_exec wH (w_in 12 (9223372036854775808 + 5) [wH 5 [1; 2; 3]]) vp_prog [1; 2; 3] = Err 10 /\     (* an unwrapped uint64 wraps to a negative int64 *)
  vp_exec wH (w_in 0 (-1) [wH 5 [1; 2; 3]]) vp_prog [1; 2; 3] = Err 10 /\ vp_exec wH (w_in 12 0 []) vp_prog [1; 2; 3] = Ok tt.
Proof. repeat split; try (vm_compute; reflexivity). intros [Hr _]. lia. Qed.
