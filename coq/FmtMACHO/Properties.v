(* FmtMACHO/Properties.v — property theorems of the format module fmtmacho (Apple code signatures in thin Mach-O images).
   Statements only; each is closed by a lemma of FmtMACHO/Proofs.v or FmtMACHO/ProofsM.v.  The property served is named in the
   comment above each theorem; checks/fmtmacho.py ASPECT_THEOREMS lists the same names. *)
From Relic Require Import Base.Prelude Base.Enc FmtMACHO.VpLang Generated.FmtMACHO_gen FmtMACHO.Model FmtMACHO.ModelM.
From Relic Require FmtMACHO.Proofs FmtMACHO.ProofsCD FmtMACHO.ProofsS FmtMACHO.ProofsM FmtMACHO.ProofsVP.
From Relic Require C09.Model.

(* ====================================================================================================== superblob *)
(* C01 C05: newSuperItem writes a CS_GenericBlob whose header states its magic and its length, for every payload below 4 GiB *)
Theorem macho_new_item_wf : forall magic payload, 0 <= magic < 4294967296 -> zlen payload + 8 < 4294967296 -> all_bytes payload = true ->
  let it := new_super_item magic payload in
  item_wf it /\ si_magic it = magic /\ zdrop 8 (si_data it) = payload /\ zlen (si_data it) = zlen payload + 8.
Proof. exact FmtMACHO.Proofs.new_item_wf. Qed.
(* C01: parseSuper (marshalSuperBlob magic items) = (magic, items) for EVERY list of blobs (any count, including none), total size below 4 GiB *)
Theorem macho_super_roundtrip : forall magic items, 0 <= magic < 4294967296 -> Forall item_wf items -> items_total items < 4294967296 ->
  parse_super (marshal_super magic items) = Ok (magic, items).
Proof. exact FmtMACHO.Proofs.super_roundtrip. Qed.
(* C01 C05: the reader written from cs_blobs.h (offsets from the start of the superblob, big endian) finds exactly the items; the length
   field is the length of the output; the index offsets are 12 + 8 n + the lengths of the blobs in front *)
Theorem macho_super_spec_reader : forall magic items, 0 <= magic < 4294967296 -> Forall item_wf items -> items_total items < 4294967296 ->
  spec_super (marshal_super magic items) = Some (magic, items) /\ zlen (marshal_super magic items) = items_total items /\
  rd32 4 (marshal_super magic items) = items_total items.
Proof. exact FmtMACHO.Proofs.super_spec_reader. Qed.

(* ====================================================================================================== malformed input (C11) *)
(* C11: on arbitrary bytes parseSuper returns a value or an ordinary error: no slice or index out of range, loop bounded *)
Theorem macho_parse_no_panic : forall blob p, all_bytes blob = true -> parse_super blob <> Panic p.
Proof. exact FmtMACHO.Proofs.parse_super_no_panic. Qed.
(* C11: parseCodeDirectory on arbitrary bytes: header, identifier / team strings, every special and code slot access, and the
   allocation of the slot table (at most 24 bytes per 20 bytes of input) *)
Theorem macho_parse_cd_no_panic : forall H blob itype p, all_bytes blob = true -> parse_code_directory H blob itype <> Panic p.
Proof. exact FmtMACHO.Proofs.parse_cd_no_panic. Qed.
Theorem macho_parse_signature_no_panic : forall H blob p, all_bytes blob = true -> parse_signature H blob <> Panic p.
Proof. exact FmtMACHO.Proofs.parse_signature_no_panic. Qed.
(* C11: csblob.Verify (the PKCS#7 layer being any function) and VerifyPages on whatever Verify accepted: since relic commit 83978b2 the
   page buffer is at most 2^20 bytes whatever the pageSize byte says (before: 2^pageSize bytes, panic for 63, out of memory from 36) *)
Theorem macho_verify_no_panic : forall H cms_verify blob vp p, all_bytes blob = true -> cs_verify H cms_verify blob vp <> Panic p.
Proof. exact FmtMACHO.Proofs.cs_verify_no_panic. Qed.
Theorem macho_verify_pages_no_panic : forall H cms_verify blob vp s file p, all_bytes blob = true ->
  cs_verify H cms_verify blob vp = Ok s -> verify_pages H s file <> Panic p.
Proof. exact FmtMACHO.Proofs.verify_then_pages_no_panic. Qed.
(* C11: VerifyPages is not hand-modelled: vp_prog (Generated/FmtMACHO_gen.v) is the statement-by-statement translation of its body, run by the
   interpreter of FmtMACHO/VpLang.v (Go's int64 wrap-around, make / reslice bounds, ReadFull, hash state).  For EVERY page size byte, EVERY 64 bit
   code size (CodeLimit64 is read from an untrusted uint64: negative values, -1, MinInt64 included), EVERY list of code slots (none, too few, too
   many) and EVERY reader content (the Mach-O section reader, the disk image reader) no `page[:remaining]`, no `make([]byte, pageSize)` of the
   program is out of range *)
Theorem macho_vp_no_panic : forall H c rd p, 0 <= i_log2 c -> 1048576 <= i_alloc_limit c -> vp_exec H c vp_prog rd <> Panic p.
Proof. exact FmtMACHO.ProofsVP.vp_no_panic. Qed.
(* C11: ... in particular on whatever csblob.Verify accepted, for any reader (dmg: the section up to the end of the property list) *)
Theorem macho_verify_pages_rd_no_panic : forall H cms_verify blob vp s n rd p, all_bytes blob = true -> 0 <= n ->
  cs_verify H cms_verify blob vp = Ok s -> verify_pages_rd H s n rd <> Panic p.
Proof. exact FmtMACHO.Proofs.verify_then_pages_rd_no_panic. Qed.
(* C11 C02 (the tie): the generated program equals a closed function of the header values for all inputs; every theorem below is about vp_prog *)
Theorem macho_vp_prog_is_fun : forall H c rd, 0 <= i_log2 c -> 1048576 <= i_alloc_limit c -> vp_exec H c vp_prog rd = FmtMACHO.ProofsVP.vp_fun H c rd.
Proof. exact FmtMACHO.ProofsVP.vp_exec_eq. Qed.

Theorem macho_scan_no_panic : forall f p, scan_file f <> Panic p.
Proof. exact FmtMACHO.ProofsM.scan_no_panic. Qed.

(* ====================================================================================================== CodeDirectory *)
(* C05 C03 C01: for every supported digest, every number of special slots (none included) and of code slots (none included), every code limit
   an int64 holds (in particular below 2^31, between 2^31 and 2^32, above 2^32), with or without team identifier and exec segment fields, the
   reader written from cs_blobs.h reads newCodeDirectory's output back to exactly: identifier, team identifier, flags, version, code limit, page
   size, hash type and size, the special slot digests (slot -1 first; zero for an absent one) and the code slots; the length field is the length,
   hashOffset / identOffset / teamOffset are the stated sums.  cd_wf (Model.v) is the domain: identifier and team without NUL, 32 bit flags,
   code slots of n * hashSize bytes, directory below 4 GiB, digest function of the right output size *)
Theorem macho_cd_spec_reader : forall H p, cd_wf H p -> exists ht raw,
  lookup (cp_hash p) cs_hash_type_of = Some ht /\
  new_code_directory H p = Ok (raw, H (cp_hash p) raw) /\ spec_cd_read raw = Some (cd_expected_view H p ht) /\
  rd32 4 raw = zlen raw /\
  rd32 16 raw = 88 + (zlen (cp_ident p) + 1) + (match cp_team p with [] => 0 | _ => zlen (cp_team p) + 1 end) + zlen (cp_specials p) * go_hash_size (cp_hash p) /\
  rd32 20 raw = 88 /\ rd32 48 raw = (match cp_team p with [] => 0 | _ => 88 + (zlen (cp_ident p) + 1) end).
Proof. exact FmtMACHO.ProofsCD.cd_spec_reader. Qed.

(* ====================================================================================================== Sign *)
(* C01 C02 C05: for any list of digest algorithms the signer is configured with (relic's hashFuncs() currently returns one): the bytes handed to the
   PKCS#7 builder are the emitted slot 0 directory; directory k > 0 goes to slot 0x1000 + k - 1; the signed attribute carries (algorithm, digest of
   the emitted bytes) of EVERY directory, the plist attribute the first 20 bytes of each *)
Theorem macho_cdhash_is_emitted : forall H hfs p stream pl, sign_plan H hfs p stream = Ok pl ->
  exists dirs others, pl_items pl = dirs ++ others /\ length dirs = length hfs /\
    map si_type dirs = FmtMACHO.ProofsS.dir_types 0 (length hfs) /\ Forall (fun it => si_magic it = cs_magic_codedirectory) dirs /\
    pl_content pl = match dirs with it :: _ => si_data it | [] => [] end /\
    pl_attr pl = map (fun hi => (fst hi, H (fst hi) (si_data (snd hi)))) (combine hfs dirs) /\
    pl_plist pl = map (fun a => ztake 20 (snd a)) (pl_attr pl).
Proof. exact FmtMACHO.ProofsS.cdhash_is_emitted. Qed.
(* C05: the code slots are the digests of the 4096 byte chunks of the stream: the page model of unit C09 (C09: hashPages = chunks for every read split) *)
Theorem macho_pages_are_c09 : forall H h stream, hash_pages H h false stream =
  (concat (map (H h) (C09.Model.chunks 4096 stream)), zlen (C09.Model.chunks 4096 stream), zlen stream).
Proof. exact FmtMACHO.ProofsS.pages_are_c09. Qed.
(* C01: the finished signature is a superblob both readers parse back to the planned items followed by the CMS wrapper *)
Theorem macho_sign_blob_parses : forall pl cms, Forall item_wf (pl_items pl) -> all_bytes cms = true -> zlen cms + 8 < 4294967296 ->
  items_total (pl_items pl ++ [new_super_item cs_magic_blobwrapper cms]) < 4294967296 ->
  parse_super (sign_finish pl cms) = Ok (cs_magic_embedded, pl_items pl ++ [new_super_item cs_magic_blobwrapper cms]) /\
  spec_super (sign_finish pl cms) = Some (cs_magic_embedded, pl_items pl ++ [new_super_item cs_magic_blobwrapper cms]).
Proof. exact FmtMACHO.ProofsS.sign_blob_parses. Qed.

(* ====================================================================================================== Verify (C02) *)
(* what csblob.Verify has checked when it accepts (the PKCS#7 layer being an arbitrary oracle): see FmtMACHO.ProofsS.dir_bound / computed_of.
   NOT bound: a directory other than the first unless the plist attribute is present (the cd hash attribute alone only names directories that must
   exist); a requirements / entitlements blob whose slot in the directory is zero or absent; Info.plist and resources when the caller has none;
   the superblob framing, the space behind the superblob, bytes behind the signature *)
Theorem macho_verify_sound : forall H cms_verify blob vp s, cs_verify H cms_verify blob vp = Ok s ->
  parse_signature H blob = Ok s /\
  exists d0 rest attr plist, sg_dirs s = d0 :: rest /\ isSome (sg_cms s) = true /\
    cms_verify (obytes (sg_cms s)) (d_raw d0) = Some (attr, plist) /\
    Forall (FmtMACHO.ProofsS.dir_bound H s vp) (sg_dirs s) /\
    (forall a, attr = Some a -> Forall (fun e => clookup (fst e) (FmtMACHO.ProofsS.computed_of H (sg_dirs s) []) = Some (snd e)) a) /\
    (forall pl, plist = Some pl -> pl = map (fun d => ztake 20 (obytes (clookup (d_hash d) (FmtMACHO.ProofsS.computed_of H (sg_dirs s) [])))) (sg_dirs s)).
Proof. exact FmtMACHO.ProofsS.verify_sound. Qed.
(* with the plist attribute (relic's own signatures always carry it) and pairwise different digest algorithms EVERY directory is bound *)
Theorem macho_two_dirs_bound : forall H cms_verify blob vp s d0 rest attr pl, cs_verify H cms_verify blob vp = Ok s -> sg_dirs s = d0 :: rest ->
  cms_verify (obytes (sg_cms s)) (d_raw d0) = Some (attr, Some pl) -> NoDup (map d_hash (sg_dirs s)) ->
  pl = map (fun d => ztake 20 (H (d_hash d) (d_raw d))) (sg_dirs s).
Proof. exact FmtMACHO.ProofsS.two_dirs_bound. Qed.
(* VerifyPages: every code slot of the best directory is the digest of the corresponding page (unit C09's chunks) of the first CodeSize() bytes *)
Theorem macho_verify_pages_sound : forall H s file d, verify_pages H s file = Ok tt -> best_dir (sg_dirs s) None = Some d ->
  h_pagesize (d_hdr d) <> 0 -> 0 <= h_pagesize (d_hdr d) ->
  let ps := 2 ^ h_pagesize (d_hdr d) in
  h_pagesize (d_hdr d) <= 20 /\
  Forall2 (fun e pg => obytes e = H (d_hash d) pg) (d_codes d) (firstn (length (d_codes d)) (C09.Model.chunks ps (ztake (mm_s64 (code_size s)) file))).
Proof. exact FmtMACHO.ProofsS.verify_pages_sound. Qed.
(* C02: EXACTLY when VerifyPages accepts, for all header values, slot lists and reader contents: page size 0 -> one slot, the digest of the whole
   reader content, whose length is the code size; page size 1..20 -> the reader holds CodeSize > 0 bytes and the slots are the digests of ALL pages (unit
   C09's chunks) of exactly the first CodeSize bytes — no slot too few (relic 086958a), none too many — or CodeSize <= 0 and there is no slot *)
Theorem macho_verify_pages_accepts_iff : forall H c rd, 0 <= i_log2 c -> 1048576 <= i_alloc_limit c ->
  (vp_exec H c vp_prog rd = Ok tt <-> FmtMACHO.ProofsVP.vp_accepts H c rd).
Proof. exact FmtMACHO.ProofsVP.vp_accepts_iff. Qed.
(* C02 C05: acceptance IS the specification (0 <= CodeSize <= |region|, slots = digests of the C09 chunks of exactly the first CodeSize bytes) for EVERY
   paged directory: no slot too few (relic 086958a), no code size with the sign bit set (relic bd61613) *)
Theorem macho_verify_pages_accepts_spec : forall H c rd, 1 <= i_log2 c <= 20 -> 1048576 <= i_alloc_limit c -> i_none c = false ->
  -9223372036854775808 <= i_code_size c < 9223372036854775808 ->
  (vp_exec H c vp_prog rd = Ok tt <-> FmtMACHO.ProofsVP.spec_pages_ok H (i_hfun c) (i_log2 c) (i_code_size c) (i_hashes c) rd).
Proof. exact FmtMACHO.ProofsVP.vp_accepts_spec. Qed.
(* C01 C05: every directory the specification describes is accepted (page sizes up to 2^20; a single-slot directory covers the whole region) *)
Theorem macho_spec_pages_accepted : forall H c rd, 0 <= i_log2 c <= 20 -> 1048576 <= i_alloc_limit c -> i_none c = false ->
  -9223372036854775808 <= i_code_size c < 9223372036854775808 -> (i_log2 c = 0 -> i_code_size c = zlen rd) ->
  FmtMACHO.ProofsVP.spec_pages_ok H (i_hfun c) (i_log2 c) (i_code_size c) (i_hashes c) rd -> vp_exec H c vp_prog rd = Ok tt.
Proof. exact FmtMACHO.ProofsVP.spec_implies_accepts. Qed.
(* C02 C05: CodeSize() (generated from the whole function): the 64 bit limit unless it is zero — as the SIGNED number Go reads — else the 32 bit one *)
Theorem macho_code_size_spec : forall none l64 l32, cs_code_size_of none l64 l32 = if none then 0 else if l64 =? 0 then l32 else l64.
Proof. exact FmtMACHO.ProofsVP.code_size_of_spec. Qed.
(* C02 regression (relic 086958a; before: finding macho:code-slots-do-not-cover-limit): fewer slots than pages are refused whatever the uncovered bytes are;
   a limit beyond the reader with every existing page covered is refused *)
Theorem macho_few_slots_rejected :
  vp_exec FmtMACHO.ProofsVP.wH (FmtMACHO.ProofsVP.w_in 1 4 [FmtMACHO.ProofsVP.wH 5 [1; 2]]) vp_prog [1; 2; 3; 4] = Err 10 /\
  vp_exec FmtMACHO.ProofsVP.wH (FmtMACHO.ProofsVP.w_in 1 4 [FmtMACHO.ProofsVP.wH 5 [1; 2]]) vp_prog [1; 2; 9; 9] = Err 10 /\
  ~ FmtMACHO.ProofsVP.spec_pages_ok FmtMACHO.ProofsVP.wH 5 1 4 [FmtMACHO.ProofsVP.wH 5 [1; 2]] [1; 2; 3; 4] /\
  vp_exec FmtMACHO.ProofsVP.wH (FmtMACHO.ProofsVP.w_in 1 4 [FmtMACHO.ProofsVP.wH 5 [1; 2]; FmtMACHO.ProofsVP.wH 5 [3; 4]]) vp_prog [1; 2; 3; 4] = Ok tt /\
  vp_exec FmtMACHO.ProofsVP.wH (FmtMACHO.ProofsVP.w_in 1 4 [FmtMACHO.ProofsVP.wH 5 [1; 2]; FmtMACHO.ProofsVP.wH 5 [3; 4]]) vp_prog [1; 2; 9; 9] = Err 6 /\
  vp_exec FmtMACHO.ProofsVP.wH (FmtMACHO.ProofsVP.w_in 12 9223372036854775807 [FmtMACHO.ProofsVP.wH 5 [1; 2; 3]]) vp_prog [1; 2; 3] = Err 1 /\
  vp_exec FmtMACHO.ProofsVP.wH (FmtMACHO.ProofsVP.w_in 12 5 []) vp_prog [1; 2; 3; 4; 5] = Err 10.
Proof. exact FmtMACHO.ProofsVP.few_slots_rejected. Qed.
(* C02 C11 regression (relic bd61613; before: finding macho:negative-limit-without-slots-accepted and the crash class of seeded change C11-r3): a code limit with
   the sign bit set (-1, MinInt64, an unwrapped uint64) is an ordinary error for no slot, one slot, paged and single-page directories *)
Theorem macho_negative_limit_rejected :
  vp_exec FmtMACHO.ProofsVP.wH (FmtMACHO.ProofsVP.w_in 12 (-1) []) vp_prog [1; 2; 3] = Err 10 /\
  vp_exec FmtMACHO.ProofsVP.wH (FmtMACHO.ProofsVP.w_in 12 (-1) []) vp_prog [7; 7; 7; 7] = Err 10 /\
  ~ FmtMACHO.ProofsVP.spec_pages_ok FmtMACHO.ProofsVP.wH 5 12 (-1) [] [1; 2; 3] /\
  vp_exec FmtMACHO.ProofsVP.wH (FmtMACHO.ProofsVP.w_in 12 (-1) [FmtMACHO.ProofsVP.wH 5 [1; 2; 3]]) vp_prog [1; 2; 3] = Err 10 /\
  vp_exec FmtMACHO.ProofsVP.wH (FmtMACHO.ProofsVP.w_in 12 (-9223372036854775808) [FmtMACHO.ProofsVP.wH 5 [1; 2; 3]]) vp_prog [1; 2; 3] = Err 10 /\
  vp_exec FmtMACHO.ProofsVP.wH (FmtMACHO.ProofsVP.w_in 12 (9223372036854775808 + 5) [FmtMACHO.ProofsVP.wH 5 [1; 2; 3]]) vp_prog [1; 2; 3] = Err 10 /\
  vp_exec FmtMACHO.ProofsVP.wH (FmtMACHO.ProofsVP.w_in 0 (-1) [FmtMACHO.ProofsVP.wH 5 [1; 2; 3]]) vp_prog [1; 2; 3] = Err 10 /\
  vp_exec FmtMACHO.ProofsVP.wH (FmtMACHO.ProofsVP.w_in 12 0 []) vp_prog [1; 2; 3] = Ok tt.
Proof. exact FmtMACHO.ProofsVP.negative_limit_rejected. Qed.
(* witness (known finding macho:alternate-directory-unbound): without the plist attribute an alternate directory grafted into the signature makes
   MODIFIED code verify; with the plist it is refused (count) *)
Theorem macho_alternate_unbound_refuted :
  FmtMACHO.ProofsS.accepts FmtMACHO.ProofsS.w_cms_none FmtMACHO.ProofsS.w_blob_genuine FmtMACHO.ProofsS.w_code = true /\
  FmtMACHO.ProofsS.accepts FmtMACHO.ProofsS.w_cms_none FmtMACHO.ProofsS.w_blob_genuine FmtMACHO.ProofsS.w_tampered = false /\
  FmtMACHO.ProofsS.accepts FmtMACHO.ProofsS.w_cms_none FmtMACHO.ProofsS.w_blob_alt FmtMACHO.ProofsS.w_tampered = true /\
  FmtMACHO.ProofsS.accepts FmtMACHO.ProofsS.w_cms_attr FmtMACHO.ProofsS.w_blob_alt FmtMACHO.ProofsS.w_tampered = true /\
  FmtMACHO.ProofsS.accepts FmtMACHO.ProofsS.w_cms_plist FmtMACHO.ProofsS.w_blob_genuine FmtMACHO.ProofsS.w_code = true /\
  FmtMACHO.ProofsS.accepts FmtMACHO.ProofsS.w_cms_plist FmtMACHO.ProofsS.w_blob_alt FmtMACHO.ProofsS.w_tampered = false /\
  cs_verify FmtMACHO.ProofsS.toyH FmtMACHO.ProofsS.w_cms_plist FmtMACHO.ProofsS.w_blob_alt FmtMACHO.ProofsS.w_vp = Err E_COUNT.
Proof. exact FmtMACHO.ProofsS.alternate_unbound_refuted. Qed.
(* witness (known finding macho:blob-without-slot-accepted) *)
Theorem macho_blob_without_slot_refuted :
  match cs_verify FmtMACHO.ProofsS.toyH FmtMACHO.ProofsS.w_cms_none FmtMACHO.ProofsS.w_blob_ent FmtMACHO.ProofsS.w_vp with
  | Ok s => sg_ent s = Some (si_data FmtMACHO.ProofsS.w_ent) /\ Forall (fun d => dir_special d 5 = None) (sg_dirs s) /\
            verify_pages FmtMACHO.ProofsS.toyH s FmtMACHO.ProofsS.w_code = Ok tt
  | _ => False
  end.
Proof. exact FmtMACHO.ProofsS.blob_without_slot_refuted. Qed.

(* ====================================================================================================== Mach-O embedding *)
(* align(addr, a) is the least multiple of a not below addr *)
Theorem macho_align_spec : forall addr a, 0 <= addr -> 0 < a -> addr <= mo_align addr a < addr + a /\ mo_align addr a mod a = 0.
Proof. exact FmtMACHO.ProofsM.align_spec. Qed.
(* C01: the reservation code_size * (20 + hs) / 4096 + |entitlements given| + |requirements given| + 16384 covers the emitted signature whenever
   the parts that do not grow with the code (index, directory header, identifier, team, special slots, requirements blob beyond the given
   requirement, DER entitlements, blob headers, CMS) stay within 16384 - hs - 2 bytes; the code slots are paid for by the first term *)
Theorem macho_size_estimate_sufficient : forall code_size hs ident team nsp ncode req_blob req_given ent der cms,
  0 <= code_size -> 0 <= hs <= 64 -> 0 <= ncode -> ncode * 4096 <= code_size + 7 + 4095 ->
  FmtMACHO.ProofsM.overhead ident team nsp hs req_blob req_given der cms <= 16384 ->
  FmtMACHO.ProofsM.emitted ident team nsp hs ncode req_blob ent der cms <= estimate code_size hs ent req_given.
Proof. exact FmtMACHO.ProofsM.size_estimate_sufficient. Qed.
(* ... and not beyond: a 17000 byte identifier on a 128 byte image: "signature overflows reserved space" (an error; nothing is written).
   Neither the certificate chain, nor a time stamp token, nor DER entitlements copied from an old signature enter the estimate *)
Theorem macho_size_estimate_refuted : macho_embed FmtMACHO.ProofsM.constH 0 (w_sparams (repeat 105 17000)) w_macho [9] = Err E_OVERFLOW.
Proof. exact FmtMACHO.ProofsM.size_estimate_refuted. Qed.
(* C01 C03 C08: the patches of a fresh signature, 32 and 64 bit, both byte orders (fresh_ok, ModelM.v: unsigned image whose __LINKEDIT command lies
   inside the load commands with 16 bytes of room behind them): the signature goes to the next multiple of 8 behind the code; the new load command is
   { LC_CODE_SIGNATURE, 16, offset, size }; the header is unchanged outside ncmds / sizeofcmds, the __LINKEDIT sizes and the new command; the signed
   file is the new header, the untouched code, zero padding, the signature buffer, and whatever followed the code *)
Theorem macho_patch_offsets : forall m f est pt, fresh_ok m f = true ->
  patch_signature (zlen f) m (ztake (m_next_lc m) f) est = Ok pt -> mo_reuse_block (m_sig_len m) est = false ->
  let nl := m_next_lc m in let cs := m_code_size m in
  let sig_start := mo_align cs mo_align_file in let sig_size := mo_align est mo_align_file in
  p_sig_start pt = sig_start /\ p_sig_buf_len pt = sig_size /\ p_padding pt = sig_start - cs /\ 0 <= p_padding pt < 8 /\
  zlen (p_hdr pt) = nl + 16 /\
  zslice nl (nl + 16) (p_hdr pt) = enc (m_le m) 4 (mm_wrap32 mo_lc_code_signature) ++ enc (m_le m) 4 16 ++ enc (m_le m) 4 (mm_wrap32 sig_start) ++ enc (m_le m) 4 (mm_wrap32 sig_size) /\
  ztake 16 (p_hdr pt) = ztake 16 f /\ zslice 24 (FmtMACHO.ProofsM.le_lo m) (p_hdr pt) = zslice 24 (FmtMACHO.ProofsM.le_lo m) f /\
  zslice (FmtMACHO.ProofsM.le_lo m + FmtMACHO.ProofsM.le_n m) nl (p_hdr pt) = zslice (FmtMACHO.ProofsM.le_lo m + FmtMACHO.ProofsM.le_n m) nl f /\
  forall sigbuf, zlen sigbuf = sig_size ->
    apply_patches f (patch_list pt sigbuf) = Ok (p_hdr pt ++ zslice (nl + 16) cs f ++ zeros (sig_start - cs) ++ sigbuf ++ zdrop cs f).
Proof. exact FmtMACHO.ProofsM.fresh_patches. Qed.
(* C01 C08 (digest input = what the verifier reads): the first sigStart bytes of the signed file are exactly the stream whose pages were hashed *)
Theorem macho_hashed_stream_is_output_prefix : forall f hs el rl mp, macho_plan f hs el rl = Ok mp -> fresh_ok (mp_markers mp) f = true ->
  0 <= m_code_size (mp_markers mp) -> 0 <= hs -> 0 <= el -> 0 <= rl ->
  let pt := mp_patched mp in let m := mp_markers mp in
  p_sig_start pt = mo_align (m_code_size m) 8 /\ p_sig_start pt mod 8 = 0 /\
  forall sigbuf, zlen sigbuf = p_sig_buf_len pt -> exists g, apply_patches f (patch_list pt sigbuf) = Ok g /\
    ztake (p_sig_start pt) g = mp_stream mp /\
    zslice (p_sig_start pt) (p_sig_start pt + p_sig_buf_len pt) g = sigbuf /\
    zdrop (p_sig_start pt + p_sig_buf_len pt) g = zdrop (m_code_size m) f /\
    zslice (m_next_lc m) (m_next_lc m + 16) g =
      enc (m_le m) 4 (mm_wrap32 mo_lc_code_signature) ++ enc (m_le m) 4 16 ++ enc (m_le m) 4 (mm_wrap32 (p_sig_start pt)) ++ enc (m_le m) 4 (mm_wrap32 (p_sig_buf_len pt)).
Proof. exact FmtMACHO.ProofsM.fresh_sign_output. Qed.
(* C01: an image without __LINKEDIT is refused with an error (relic 949b37f; before: "signed" into a file that is no Mach-O) *)
Theorem macho_refuses_no_linkedit : scan_file w_macho_nolinkedit = Err E_NOLINKEDIT /\ forall H rg p, macho_hashin H rg p w_macho_nolinkedit = Err E_NOLINKEDIT.
Proof. exact FmtMACHO.ProofsM.no_linkedit_refused. Qed.
(* C01 C03 C08, computed on the minimal image: sign, sign again: each result carries exactly the CMS given, verifies in the model (directory parsed by
   the faithful parser, special slots, page hashes against the signed file), keeps the specification payload, re-uses the reserved space, and the
   code directory to be signed is the same for the signed and the unsigned file *)
Theorem macho_laws_computed :
  match FmtMACHO.ProofsM.sign_twice [9; 9; 9] [7] with
  | Ok (g1, g2) =>
      fresh_ok (match scan_file w_macho with Ok m => m | _ => mkM false 0 0 0 1 1 1 0 0 0 0 0 0 0 0 end) w_macho = true /\
      FmtMACHO.ProofsM.cms_of g1 = Some [9; 9; 9] /\ FmtMACHO.ProofsM.cms_of g2 = Some [7] /\
      FmtMACHO.ProofsM.verifies (fun _ _ => Some (None, None)) g1 = true /\ FmtMACHO.ProofsM.verifies (fun _ _ => Some (None, None)) g2 = true /\
      spec_payload g1 = spec_payload w_macho /\ spec_payload g2 = spec_payload w_macho /\ zlen g2 = zlen g1 /\
      macho_hashin FmtMACHO.ProofsM.constH 0 (w_sparams [105; 100]) g1 = macho_hashin FmtMACHO.ProofsM.constH 0 (w_sparams [105; 100]) w_macho /\
      match spec_image g1 with Some im => spec_codesig im = Some (128, 16392) | None => False end
  | _ => False
  end.
Proof. exact FmtMACHO.ProofsM.macho_laws_computed. Qed.
(* C01: trailing bytes behind an odd code end are not hashed (relic e8e9586; before: the signed file failed its own verification) *)
Theorem macho_trailing_not_hashed :
  match macho_embed FmtMACHO.ProofsM.constH 0 (w_sparams [105; 100]) w_macho_trailing [9] with
  | Ok g => FmtMACHO.ProofsM.verifies (fun _ _ => Some (None, None)) g = true /\ zdrop (zlen g - 3) g = [6; 7; 8] /\ zslice 125 128 g = [0; 0; 0]
  | _ => False
  end.
Proof. exact FmtMACHO.ProofsM.trailing_not_hashed. Qed.

(* non-vacuity *)
Example super_small : marshal_super 4208856256 [new_super_item 4208882033 [1; 2]] =
  [250; 222; 12; 192; 0; 0; 0; 30; 0; 0; 0; 1; 0; 0; 0; 5; 0; 0; 0; 20; 250; 222; 113; 113; 0; 0; 0; 10; 1; 2].
Proof. reflexivity. Qed.
(* the hypotheses of the VerifyPages theorems are satisfiable: a two page directory over four bytes of code, page size 2^1, a 1 MiB allocation permitted;
   a directory with a negative code limit and one slot is inside the domain of macho_vp_no_panic and yields error class 10, not a panic *)
Example vp_domain_inhabited :
  let c := FmtMACHO.ProofsVP.w_in 1 4 [FmtMACHO.ProofsVP.wH 5 [1; 2]; FmtMACHO.ProofsVP.wH 5 [3; 4]] in
  0 <= i_log2 c /\ 1048576 <= i_alloc_limit c /\ -9223372036854775808 <= i_code_size c < 9223372036854775808 /\
  FmtMACHO.ProofsVP.spec_pages_ok FmtMACHO.ProofsVP.wH 5 1 4 (i_hashes c) [1; 2; 3; 4] /\ vp_exec FmtMACHO.ProofsVP.wH c vp_prog [1; 2; 3; 4] = Ok tt.
Proof. cbv zeta. repeat split; try (vm_compute; reflexivity); try (vm_compute; congruence); cbn; lia. Qed.
Example vp_negative_limit_is_error :
  vp_exec FmtMACHO.ProofsVP.wH (FmtMACHO.ProofsVP.w_in 12 (-8192) [FmtMACHO.ProofsVP.wH 5 [1]; FmtMACHO.ProofsVP.wH 5 [2]]) vp_prog [1; 2] = Err 10.
Proof. vm_compute. reflexivity. Qed.
