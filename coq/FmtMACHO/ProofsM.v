(* FmtMACHO/ProofsM.v — part 2 (machos): alignment, the size estimate, the header scan never panics, the patches of a fresh signature *)
From Relic Require Import Base.Prelude Base.Enc Generated.FmtMACHO_gen FmtMACHO.Model FmtMACHO.ModelM FmtMACHO.Proofs.

(* ------------------------------------------------------------------ align *)
Theorem align_spec addr a : 0 <= addr -> 0 < a -> addr <= mo_align addr a < addr + a /\ mo_align addr a mod a = 0.
Proof.
  intros H0 Ha. unfold mo_align, mo_align_rem, mo_align_needed, mo_align_bump. rewrite Z.rem_mod_nonneg by lia.
  pose proof (Z.mod_pos_bound addr a Ha) as Hm. destruct (addr mod a =? 0) eqn:E; cbn [negb].
  - split; [lia|]. lia.
  - split; [lia|]. replace (addr + (a - addr mod a)) with (a * (addr / a) + a) by (pose proof (Z.div_mod addr a); lia).
    replace (a * (addr / a) + a) with ((addr / a + 1) * a) by lia. apply Z.mod_mul. lia.
Qed.

(* ------------------------------------------------------------------ the size estimate *)
(* the reservation: code_size * (20 + hash size) / 4096 + len(entitlements given) + len(requirements given) + 16384.
   What is emitted: 12 + 8 n index bytes, the directory (88 + identifier + team + special and code slots), the requirements blob, the entitlements
   blobs (8 byte headers), the CMS wrapper.  The code slots are paid for by the first term (one slot per 4096 bytes, the stream being at most 7
   bytes longer than code_size); everything else has to fit into the 16384 *)
Definition emitted (ident team nsp hs ncode req_blob ent der cms : Z) : Z :=
  12 + 8 * 5 + (88 + (ident + 1) + (team + 1) + nsp * hs + ncode * hs) + req_blob + (8 + ent) + (8 + der) + (8 + cms).
Definition overhead (ident team nsp hs req_blob req_given der cms : Z) : Z :=
  12 + 8 * 5 + 88 + (ident + 1) + (team + 1) + nsp * hs + (req_blob - req_given) + 8 + (8 + der) + (8 + cms) + (hs + 2).
Theorem size_estimate_sufficient code_size hs ident team nsp ncode req_blob req_given ent der cms :
  0 <= code_size -> 0 <= hs <= 64 -> 0 <= ncode -> ncode * 4096 <= code_size + 7 + 4095 ->
  overhead ident team nsp hs req_blob req_given der cms <= 16384 ->
  emitted ident team nsp hs ncode req_blob ent der cms <= estimate code_size hs ent req_given.
Proof.
  intros Hc Hh Hn Hnc Ho. unfold estimate, mo_est2, mo_est1, mo_est0, emitted. unfold overhead in Ho.
  rewrite Z.quot_div_nonneg by nia. set (q := code_size * (20 + hs) / 4096).
  assert (Hq : code_size * (20 + hs) < 4096 * q + 4096) by (unfold q; pose proof (Z.div_mod (code_size * (20 + hs)) 4096 ltac:(lia)); pose proof (Z.mod_pos_bound (code_size * (20 + hs)) 4096 ltac:(lia)); lia).
  assert (Hk : ncode * hs <= q + hs + 2) by nia. lia.
Qed.

(* ------------------------------------------------------------------ scanFile never panics: the loops are bounded by the bytes they consume *)
Lemma length_zdrop_le {A} n (l : list A) : (length (zdrop n l) <= length l)%nat.
Proof. unfold zdrop. rewrite skipn_length. lia. Qed.
Lemma length_zdrop_lt {A} n (l : list A) : 0 < n -> 0 < zlen l -> (length (zdrop n l) < length l)%nat.
Proof. intros Hn Hl. unfold zdrop, zlen in *. rewrite skipn_length. lia. Qed.
Lemma sect_loop_no_panic : forall fuel le is64 b i nsect sf fs p, (length b < fuel)%nat -> sect_loop fuel le is64 b i nsect sf fs <> Panic p.
Proof.
  induction fuel as [|fuel IH]; intros le is64 b i nsect sf fs p Hf; [lia|]. cbn [sect_loop].
  destruct (negb (mo_sect_loop i nsect)); [discriminate|].
  destruct (zlen b <? (if is64 then SECT64_SIZE else SECT32_SIZE)) eqn:E; [discriminate|].
  apply IH. assert (0 < (if is64 then SECT64_SIZE else SECT32_SIZE)) by (destruct is64; reflexivity).
  pose proof (length_zdrop_lt (if is64 then SECT64_SIZE else SECT32_SIZE) b ltac:(lia) ltac:(lia)). lia.
Qed.
Lemma cmd_loop_no_panic : forall fuel le dat i ncmd eoh st p, (length dat < fuel)%nat -> cmd_loop fuel le dat i ncmd eoh st <> Panic p.
Proof.
  induction fuel as [|fuel IH]; intros le dat i ncmd eoh st p Hf; [lia|]. cbn [cmd_loop].
  destruct (negb (mo_cmd_loop i ncmd)); [discriminate|].
  unfold mo_cmd_block_small. destruct (zlen dat <? 8) eqn:E8; [discriminate|].
  unfold mo_cmd_size_bad. set (siz := rdf le 4 4 dat). destruct ((siz <? 8) || (siz >? zlen dat)) eqn:Es; [discriminate|].
  match goal with |- (bind ?X _) <> _ => destruct X as [st'| |q] eqn:Est end; cbn [bind]; try discriminate.
  - apply IH. pose proof (length_zdrop_lt siz dat ltac:(lia) ltac:(lia)). lia.
  - exfalso. revert Est. clear IH.
    destruct (rdf le 0 4 dat =? LC_SEGMENT).
    { destruct (_ <? SEG32_SIZE); [discriminate|].
      destruct (sect_loop _ le false _ 0 _ 0 _) as [fs| |q2] eqn:Esl; cbn [bind]; try discriminate.
      exfalso. revert Esl. apply sect_loop_no_panic. pose proof (length_zdrop_le SEG32_SIZE (ztake siz dat)). lia. }
    destruct (rdf le 0 4 dat =? LC_SEGMENT_64).
    { destruct (_ <? SEG64_SIZE); [discriminate|].
      destruct (sect_loop _ le true _ 0 _ _ _) as [fs| |q2] eqn:Esl; cbn [bind]; try discriminate.
      exfalso. revert Esl. apply sect_loop_no_panic. pose proof (length_zdrop_le SEG64_SIZE (ztake siz dat)). lia. }
    destruct (rdf le 0 4 dat =? mo_lc_code_signature); [destruct (_ <? mo_cscmd_size); discriminate|discriminate].
Qed.
Theorem scan_no_panic f p : scan_file f <> Panic p.
Proof.
  unfold scan_file. destruct (negb scan_layout_ok); [discriminate|]. destruct (zlen f <? 4); [discriminate|].
  destruct (if mo_magic_tag =? _ then _ else _) as [[le magic]|]; [|discriminate].
  destruct (zlen f <? mo_hdr_size0); [discriminate|]. destruct (mo_cmds_short _ _); [discriminate|].
  destruct (cmd_loop _ le _ 0 _ _ _) as [st| |q] eqn:Ec; cbn [bind]; try discriminate.
  - destruct (mo_no_linkedit _); [discriminate|]. destruct (mo_has_old_sig _); [destruct (mo_old_sig_misplaced _ _); discriminate|discriminate].
  - exfalso. revert Ec. apply cmd_loop_no_panic. lia.
Qed.

(* ------------------------------------------------------------------ computed instances on the minimal image (toy digest of ProofsS is not needed: any H) *)
Definition constH (h : Z) (x : bytes) : bytes := repeat (1 + zlen x mod 250) (Z.to_nat (go_hash_size h)).
(* refusals since relic commits 949b37f / e8e9586: no __LINKEDIT is an error; trailing data behind an unaligned code end is not hashed *)
Theorem no_linkedit_refused : scan_file w_macho_nolinkedit = Err E_NOLINKEDIT /\ forall H rg p, macho_hashin H rg p w_macho_nolinkedit = Err E_NOLINKEDIT.
Proof. split; [vm_compute; reflexivity|]. intros H rg p. unfold macho_hashin, macho_prepare, macho_plan. change (negb sign_m_layout_ok) with false. cbv iota.
  replace (scan_file w_macho_nolinkedit) with (@Err markers E_NOLINKEDIT) by (vm_compute; reflexivity). reflexivity. Qed.

(* ------------------------------------------------------------------ put / apply on decomposed lists *)
Lemma put_exact a old c v off : off = zlen a -> zlen old = zlen v -> put off v (a ++ old ++ c) = Ok (a ++ v ++ c).
Proof.
  intros -> Hl. unfold put. rewrite !zlen_app. pose proof (zlen_nonneg a). pose proof (zlen_nonneg c). pose proof (zlen_nonneg v).
  replace ((zlen a <? 0) || (zlen a + (zlen old + zlen c) <? zlen a + zlen v)) with false by lia.
  rewrite ztake_app_exact. rewrite <- Hl. replace (a ++ old ++ c) with ((a ++ old) ++ c) by now rewrite app_assoc.
  replace (zlen a + zlen old) with (zlen (a ++ old)) by now rewrite zlen_app. rewrite zdrop_app_exact. reflexivity.
Qed.
Lemma put_len off v buf r : put off v buf = Ok r -> zlen r = zlen buf.
Proof.
  unfold put. destruct ((off <? 0) || (zlen buf <? off + zlen v)) eqn:E; [discriminate|]. intros [= <-].
  pose proof (zlen_nonneg v). rewrite !zlen_app, zlen_ztake, zlen_zdrop by lia. lia.
Qed.
Lemma put_ok off v buf : 0 <= off -> off + zlen v <= zlen buf -> exists r, put off v buf = Ok r /\ zlen r = zlen buf.
Proof.
  intros H0 H1. unfold put. replace ((off <? 0) || (zlen buf <? off + zlen v)) with false by lia. eexists. split; [reflexivity|].
  pose proof (zlen_nonneg v). rewrite !zlen_app, zlen_ztake, zlen_zdrop by lia. lia.
Qed.
(* a write that falls inside the middle part of a three part buffer *)
Lemma put_inside a x c v off : zlen a <= off -> off + zlen v <= zlen a + zlen x ->
  exists x', put off v (a ++ x ++ c) = Ok (a ++ x' ++ c) /\ put (off - zlen a) v x = Ok x' /\ zlen x' = zlen x.
Proof.
  intros H0 H1. pose proof (zlen_nonneg v) as Hv. destruct (put_ok (off - zlen a) v x ltac:(lia) ltac:(lia)) as [x' [Hp Hl]].
  exists x'. split; [|split; assumption]. unfold put in *. rewrite !zlen_app. pose proof (zlen_nonneg a). pose proof (zlen_nonneg c).
  replace ((off <? 0) || (zlen a + (zlen x + zlen c) <? off + zlen v)) with false by lia.
  destruct ((off - zlen a <? 0) || (zlen x <? off - zlen a + zlen v)); [discriminate|]. injection Hp as <-.
  f_equal. rewrite ztake_app_r by lia. rewrite <- app_assoc. f_equal. rewrite ztake_app_l by lia. rewrite <- !app_assoc. f_equal. f_equal.
  rewrite zdrop_app_r by lia. rewrite zdrop_app_l by lia. f_equal. f_equal. lia.
Qed.
Lemma crdf_ok le off w l : 0 <= off -> off + w <= zlen l -> crdf le off w l = Ok (rdf le off w l).
Proof. intros H0 H1. unfold crdf. replace ((off <? 0) || (zlen l <? off + w)) with false by lia. reflexivity. Qed.
Lemma zlen_enc le w v : zlen (enc le w v) = Z.of_nat w.
Proof. unfold enc. destruct le; [apply le_enc_zlen|apply be_enc_zlen]. Qed.

Lemma apply_step f done seg old rest new ps r : f = done ++ seg ++ old ++ rest ->
  apply_sorted f (zlen done + zlen seg + zlen old) ps = Ok r ->
  apply_sorted f (zlen done) ((zlen done + zlen seg, zlen old, new) :: ps) = Ok (seg ++ new ++ r).
Proof.
  intros Hf Hr. cbn [apply_sorted]. pose proof (zlen_nonneg done). pose proof (zlen_nonneg seg). pose proof (zlen_nonneg old). pose proof (zlen_nonneg rest).
  assert (Hl : zlen f = zlen done + zlen seg + zlen old + zlen rest) by (rewrite Hf, !zlen_app; lia).
  replace ((zlen done + zlen seg <? zlen done) || (zlen f <? zlen done + zlen seg + zlen old) || (zlen old <? 0)) with false by lia.
  rewrite Hr. cbn [bind]. f_equal. f_equal. rewrite Hf. apply zslice_mid; lia.
Qed.
Lemma insert_patch_front p l : (forall q, In q l -> fst (fst p) < fst (fst q)) -> insert_patch p l = p :: l.
Proof. destruct l as [|x r]; [reflexivity|]. intros H. cbn [insert_patch]. replace (fst (fst p) <? fst (fst x)) with true by (specialize (H x (or_introl eq_refl)); lia). reflexivity. Qed.

Fixpoint sorted_off (l : list patch) : Prop :=
  match l with [] => True | p :: r => (forall q, In q r -> fst (fst p) < fst (fst q)) /\ sorted_off r end.
Lemma sort_sorted l : sorted_off l -> sort_patches l = l.
Proof. induction l as [|p r IH]; [reflexivity|]. intros [Hp Hr]. cbn [sort_patches]. rewrite IH by exact Hr. apply insert_patch_front. exact Hp. Qed.

(* ------------------------------------------------------------------ the patches of a fresh signature (64 bit images) *)
Lemma split5 {A} (l : list A) a b c d : 0 <= a <= b -> b <= c <= d -> d <= zlen l ->
  l = ztake a l ++ zslice a b l ++ zslice b c l ++ zslice c d l ++ zdrop d l.
Proof.
  intros H1 H2 H3. unfold zslice.
  rewrite <- (ztake_zdrop a l) at 1. f_equal.
  rewrite <- (ztake_zdrop (b - a) (zdrop a l)) at 1. f_equal. rewrite zdrop_zdrop by lia. replace (b - a + a) with b by lia.
  rewrite <- (ztake_zdrop (c - b) (zdrop b l)) at 1. f_equal. rewrite zdrop_zdrop by lia. replace (c - b + b) with c by lia.
  rewrite <- (ztake_zdrop (d - c) (zdrop c l)) at 1. f_equal. rewrite zdrop_zdrop by lia. replace (d - c + c) with d by lia. reflexivity.
Qed.
Lemma zeros_split a b : 0 <= a -> 0 <= b -> zeros (a + b) = zeros a ++ zeros b.
Proof. intros Ha Hb. unfold zeros. rewrite Z2Nat.inj_add by lia. apply repeat_app. Qed.

Definition le_lo (m : markers) : Z := if mo_le_is_64 (m_magic m) then m_le_pos m + 32 else m_le_pos m + 28.
Definition le_n (m : markers) : Z := if mo_le_is_64 (m_magic m) then 24 else 12.
Lemma patch_link_edit_form m A2 x2 C sig_start sig_size : zlen A2 = le_lo m -> zlen x2 = le_n m ->
  exists y2, patch_link_edit m (A2 ++ x2 ++ C) sig_start sig_size = Ok (A2 ++ y2 ++ C, (le_lo m, le_n m)) /\ zlen y2 = le_n m.
Proof.
  unfold le_lo, le_n, patch_link_edit. pose proof (zlen_nonneg C) as HC. pose proof (zlen_nonneg A2) as HA. destruct (mo_le_is_64 (m_magic m)); intros LA Lx.
  - unfold mo_le64_memsz_at, mo_le64_filesz_at, mo_le64_patch_off, mo_le64_patch_len.
    destruct (put_inside A2 x2 C (enc (m_le m) 8 (mo_le_memsz mo_align (mm_wrap64 (mo_le_end sig_start sig_size)) (m_le_off m))) (m_le_pos m + 32) ltac:(lia) ltac:(rewrite zlen_enc; lia)) as [xa [P3 [_ La]]].
    rewrite P3. cbn [bind].
    destruct (put_inside A2 xa C (enc (m_le m) 8 (mm_wrap64 (mo_le_filesz (mo_le_end sig_start sig_size) (m_le_off m)))) (m_le_pos m + 48) ltac:(lia) ltac:(rewrite zlen_enc; lia)) as [y2 [P4 [_ Lb]]].
    rewrite P4. cbn [bind]. rewrite cslice_ok by (rewrite ?zlen_app, ?LA, ?Lb, ?La, ?Lx; lia). cbn [bind]. exists y2. split; [reflexivity|lia].
  - unfold mo_le32_memsz_at, mo_le32_filesz_at, mo_le32_patch_off, mo_le32_patch_len.
    destruct (put_inside A2 x2 C (enc (m_le m) 4 (mo_le32_memsz_val (mo_le_memsz mo_align (mm_wrap64 (mo_le_end sig_start sig_size)) (m_le_off m)))) (m_le_pos m + 28) ltac:(lia) ltac:(rewrite zlen_enc; lia)) as [xa [P3 [_ La]]].
    rewrite P3. cbn [bind].
    destruct (put_inside A2 xa C (enc (m_le m) 4 (mo_le32_filesz_val (mm_wrap64 (mo_le_filesz (mo_le_end sig_start sig_size) (m_le_off m))))) (m_le_pos m + 36) ltac:(lia) ltac:(rewrite zlen_enc; lia)) as [y2 [P4 [_ Lb]]].
    rewrite P4. cbn [bind]. rewrite cslice_ok by (rewrite ?zlen_app, ?LA, ?Lb, ?La, ?Lx; lia). cbn [bind]. exists y2. split; [reflexivity|lia].
Qed.

Theorem fresh_patches m f est pt : fresh_ok m f = true ->
  patch_signature (zlen f) m (ztake (m_next_lc m) f) est = Ok pt -> mo_reuse_block (m_sig_len m) est = false ->
  let nl := m_next_lc m in let cs := m_code_size m in
  let sig_start := mo_align cs mo_align_file in let sig_size := mo_align est mo_align_file in
  p_sig_start pt = sig_start /\ p_sig_buf_len pt = sig_size /\ p_padding pt = sig_start - cs /\ 0 <= p_padding pt < 8 /\
  zlen (p_hdr pt) = nl + 16 /\
  (* the new load command, in the image's byte order *)
  zslice nl (nl + 16) (p_hdr pt) = enc (m_le m) 4 (mm_wrap32 mo_lc_code_signature) ++ enc (m_le m) 4 16 ++ enc (m_le m) 4 (mm_wrap32 sig_start) ++ enc (m_le m) 4 (mm_wrap32 sig_size) /\
  (* outside the three patched fields the new header is the old header (followed by the 16 bytes of the new command) *)
  ztake 16 (p_hdr pt) = ztake 16 f /\ zslice 24 (le_lo m) (p_hdr pt) = zslice 24 (le_lo m) f /\
  zslice (le_lo m + le_n m) nl (p_hdr pt) = zslice (le_lo m + le_n m) nl f /\
  forall sigbuf, zlen sigbuf = sig_size ->
    apply_patches f (patch_list pt sigbuf) = Ok (p_hdr pt ++ zslice (nl + 16) cs f ++ zeros (sig_start - cs) ++ sigbuf ++ zdrop cs f).
Proof.
  intros Hok Hp Hre. cbv zeta.
  unfold fresh_ok in Hok. repeat (apply andb_true_iff in Hok as [Hok ?]).
  assert (Hlc : m_load_cs m = 0) by lia. assert (Hsl : m_sig_len m = 0) by lia. assert (Hss : m_sig_start m = 0) by lia.
  set (nl := m_next_lc m) in *. set (cs := m_code_size m) in *. set (lp := m_le_pos m) in *. set (le := m_le m) in *.
  set (lo := le_lo m) in *. set (n2 := le_n m) in *.
  assert (Hlp : 28 <= lp) by lia. assert (Hlo : lp + 28 <= lo <= lp + 32 /\ (n2 = 24 \/ n2 = 12) /\ lo + n2 <= nl) by (unfold lo, n2, le_lo, le_n; fold lp; destruct (mo_le_is_64 (m_magic m)); lia).
  destruct Hlo as [Hlo1 [Hn2 Hlo2]]. assert (Hfs : nl + 16 <= m_first_sh m) by lia.
  assert (Hcs : nl + 16 <= cs) by lia. assert (Hcf : cs <= zlen f) by lia. clear Hok.
  set (hdr := ztake nl f) in *. assert (Hhl : zlen hdr = nl) by (unfold hdr; apply zlen_ztake; lia).
  unfold patch_signature in Hp. change (negb patch_layout_ok) with false in Hp. cbv iota in Hp. rewrite Hre in Hp.
  unfold mo_sig_size_aligned, mo_sig_start_unset, mo_sig_start_new, mo_padding, mo_padding_neg, mo_padded_len in Hp. rewrite Hss in Hp. change (0 =? 0) with true in Hp. cbv iota in Hp.
  fold cs in Hp. set (sig_start := mo_align cs mo_align_file) in *. set (sig_size := mo_align est mo_align_file) in *.
  destruct (align_spec cs 8 ltac:(lia) ltac:(lia)) as [Hal _]. change (mo_align cs 8) with sig_start in Hal.
  replace (sig_start - cs <? 0) with false in Hp by lia.
  destruct (alloc (zlen f) (sig_start - cs + sig_size)) as [[]| |]; cbn [bind] in Hp; try discriminate.
  (* patchNcmd *)
  unfold patch_ncmd in Hp. rewrite Hlc in Hp. change (mo_has_load_cs 0) with false in Hp. cbv iota in Hp.
  unfold mo_load_cs_end, mo_lc_overflows, mo_hdr_extend in Hp. fold nl le in Hp.
  replace (nl + 16 >? m_first_sh m) with false in Hp by lia. rewrite Hhl in Hp. replace (nl <? nl + 16) with true in Hp by lia.
  replace (nl + 16 - nl) with 16 in Hp by lia.
  (* decompose the old header *)
  pose proof (split5 hdr 16 24 lo (lo + n2) ltac:(lia) ltac:(lia) ltac:(lia)) as Hd.
  set (s0 := ztake 16 hdr) in *. set (x1 := zslice 16 24 hdr) in *. set (s1 := zslice 24 lo hdr) in *.
  set (x2 := zslice lo (lo + n2) hdr) in *. set (s2 := zdrop (lo + n2) hdr) in *.
  assert (L0 : zlen s0 = 16) by (unfold s0; apply zlen_ztake; lia).
  assert (L1 : zlen x1 = 8) by (unfold x1; rewrite zlen_zslice; lia).
  assert (L2 : zlen s1 = lo - 24) by (unfold s1; rewrite zlen_zslice; lia).
  assert (L3 : zlen x2 = n2) by (unfold x2; rewrite zlen_zslice; lia).
  assert (L4 : zlen s2 = nl - lo - n2) by (unfold s2; rewrite zlen_zdrop; lia).
  set (h1 := hdr ++ zeros 16) in *.
  assert (Hh1 : h1 = s0 ++ x1 ++ (s1 ++ x2 ++ s2 ++ zeros 16)) by (unfold h1; rewrite Hd at 1; rewrite <- !app_assoc; reflexivity).
  assert (Lz : zlen (zeros 16) = 16) by reflexivity.
  assert (Lh1 : zlen h1 = nl + 16) by (unfold h1; rewrite zlen_app, Hhl, Lz; reflexivity).
  unfold mo_ncmd_at, mo_cmdsz_at, mo_ncmd_patch_off, mo_ncmd_patch_len in Hp.
  rewrite crdf_ok in Hp by lia. cbn [bind] in Hp.
  destruct (put_inside s0 x1 (s1 ++ x2 ++ s2 ++ zeros 16) (enc le 4 (mo_ncmd_new (rdf le 16 4 h1))) 16 ltac:(lia) ltac:(rewrite zlen_enc; lia)) as [x1a [P1 [_ L1a]]].
  rewrite <- Hh1 in P1. rewrite P1 in Hp. cbn [bind] in Hp.
  rewrite crdf_ok in Hp by (rewrite ?zlen_app, ?L0, ?L1a, ?L2, ?L3, ?L4, ?Lz; lia). cbn [bind] in Hp.
  destruct (put_inside s0 x1a (s1 ++ x2 ++ s2 ++ zeros 16) (enc le 4 (mo_cmdsz_new (rdf le 20 4 (s0 ++ x1a ++ s1 ++ x2 ++ s2 ++ zeros 16)))) 20 ltac:(lia) ltac:(rewrite zlen_enc; lia)) as [y1 [P2 [_ L1b]]].
  rewrite P2 in Hp. cbn [bind] in Hp.
  rewrite cslice_ok in Hp by (rewrite ?zlen_app, ?L0, ?L1b, ?L2, ?L3, ?L4, ?Lz; lia). cbn [bind] in Hp.
  (* patchLinkEdit *)
  set (A2 := s0 ++ y1 ++ s1).
  assert (LA2 : zlen A2 = lo) by (unfold A2; rewrite !zlen_app, L0, L1b, L2; lia).
  assert (Hh3 : s0 ++ y1 ++ s1 ++ x2 ++ s2 ++ zeros 16 = A2 ++ x2 ++ (s2 ++ zeros 16)) by (unfold A2; rewrite <- !app_assoc; reflexivity).
  rewrite Hh3 in Hp.
  destruct (patch_link_edit_form m A2 x2 (s2 ++ zeros 16) sig_start sig_size LA2 L3) as [y2 [P34 L3b]]. fold lo n2 in P34, L3b.
  rewrite P34 in Hp. cbn [bind fst snd] in Hp.
  (* patchLoadCmd: four writes into the sixteen new bytes *)
  unfold patch_load_cmd in Hp. fold le in Hp. unfold mo_lc_cmd_at, mo_lc_len_at, mo_lc_off_at, mo_lc_size_at, mo_lc_cmd_val, mo_lc_len_val, mo_lc_off_val, mo_lc_size_val, mo_lc_patch_len in Hp.
  set (A3 := A2 ++ y2 ++ s2).
  assert (LA3 : zlen A3 = nl) by (unfold A3; rewrite !zlen_app, LA2, L3b, L4; lia).
  assert (Hh5 : A2 ++ y2 ++ s2 ++ zeros 16 = A3 ++ zeros 4 ++ zeros 4 ++ zeros 4 ++ zeros 4) by (unfold A3; rewrite <- !app_assoc; reflexivity).
  rewrite Hh5 in Hp.
  set (v0 := enc le 4 (mm_wrap32 mo_lc_code_signature)) in *. set (v1 := enc le 4 16) in *. set (v2 := enc le 4 (mm_wrap32 sig_start)) in *. set (v3 := enc le 4 (mm_wrap32 sig_size)) in *.
  assert (Lv : zlen v0 = 4 /\ zlen v1 = 4 /\ zlen v2 = 4 /\ zlen v3 = 4) by (unfold v0, v1, v2, v3; rewrite !zlen_enc; repeat split; reflexivity).
  destruct Lv as [Lv0 [Lv1 [Lv2 Lv3]]].
  rewrite (put_exact A3 (zeros 4) (zeros 4 ++ zeros 4 ++ zeros 4) v0 nl) in Hp by (rewrite ?Lv0; auto). cbn [bind] in Hp.
  replace (A3 ++ v0 ++ zeros 4 ++ zeros 4 ++ zeros 4) with ((A3 ++ v0) ++ zeros 4 ++ zeros 4 ++ zeros 4) in Hp by (rewrite <- !app_assoc; reflexivity).
  rewrite (put_exact (A3 ++ v0) (zeros 4) (zeros 4 ++ zeros 4) v1 (nl + 4)) in Hp by (rewrite ?zlen_app, ?LA3, ?Lv0, ?Lv1; auto). cbn [bind] in Hp.
  replace ((A3 ++ v0) ++ v1 ++ zeros 4 ++ zeros 4) with ((A3 ++ v0 ++ v1) ++ zeros 4 ++ zeros 4) in Hp by (rewrite <- !app_assoc; reflexivity).
  rewrite (put_exact (A3 ++ v0 ++ v1) (zeros 4) (zeros 4) v2 (nl + 8)) in Hp by (rewrite ?zlen_app, ?LA3, ?Lv0, ?Lv1, ?Lv2; auto; lia). cbn [bind] in Hp.
  replace ((A3 ++ v0 ++ v1) ++ v2 ++ zeros 4) with ((A3 ++ v0 ++ v1 ++ v2) ++ zeros 4 ++ []) in Hp by (rewrite app_nil_r, <- !app_assoc; reflexivity).
  rewrite (put_exact (A3 ++ v0 ++ v1 ++ v2) (zeros 4) [] v3 (nl + 12)) in Hp by (rewrite ?zlen_app, ?LA3, ?Lv0, ?Lv1, ?Lv2, ?Lv3; auto; lia). cbn [bind] in Hp.
  rewrite app_nil_r in Hp.
  set (y3 := v0 ++ v1 ++ v2 ++ v3).
  assert (Hfin : (A3 ++ v0 ++ v1 ++ v2) ++ v3 = A3 ++ y3) by (unfold y3; rewrite <- !app_assoc; reflexivity).
  rewrite Hfin in Hp.
  assert (Ly3 : zlen y3 = 16) by (unfold y3; rewrite !zlen_app, Lv0, Lv1, Lv2, Lv3; reflexivity).
  rewrite cslice_ok in Hp by (rewrite ?zlen_app, ?LA3, ?Ly3; lia). cbn [bind fst snd] in Hp.
  injection Hp as <-. cbn [p_sig_start p_sig_buf_len p_padding p_hdr p_hdr_ranges p_sig_patch].
  set (hf := A3 ++ y3).
  assert (Lhf : zlen hf = nl + 16) by (unfold hf; rewrite zlen_app, LA3, Ly3; reflexivity).
  assert (Hhf : hf = s0 ++ y1 ++ s1 ++ y2 ++ s2 ++ y3) by (unfold hf, A3, A2; rewrite <- !app_assoc; reflexivity).
  split; [reflexivity|]. split; [reflexivity|]. split; [reflexivity|]. split; [lia|]. split; [exact Lhf|].
  split. { unfold hf. apply zslice_end; [lia|rewrite Ly3; lia]. }
  (* unchanged parts *)
  assert (Hf : f = s0 ++ x1 ++ s1 ++ x2 ++ s2 ++ zslice nl (nl + 16) f ++ zslice (nl + 16) cs f ++ zdrop cs f).
  { rewrite <- (ztake_zdrop nl f) at 1. fold hdr. rewrite Hd at 1. rewrite <- !app_assoc. do 5 f_equal.
    unfold zslice. rewrite <- (ztake_zdrop (nl + 16 - nl) (zdrop nl f)) at 1. f_equal. rewrite zdrop_zdrop by lia. replace (nl + 16 - nl + nl) with (nl + 16) by lia.
    rewrite <- (ztake_zdrop (cs - (nl + 16)) (zdrop (nl + 16) f)) at 1. f_equal. rewrite zdrop_zdrop by lia. f_equal. lia. }
  split. { rewrite Hhf. rewrite Hf at 1. rewrite <- L0. rewrite !ztake_app_exact. reflexivity. }
  split. { rewrite Hhf. rewrite Hf at 1. rewrite (app_assoc s0 y1), (app_assoc s0 x1).
    rewrite (zslice_mid (s0 ++ y1) s1) by (rewrite ?zlen_app, ?L0, ?L1b, ?L2; lia). rewrite (zslice_mid (s0 ++ x1) s1) by (rewrite ?zlen_app, ?L0, ?L1, ?L2; lia). reflexivity. }
  split. { rewrite Hhf. rewrite Hf at 1.
    replace (s0 ++ y1 ++ s1 ++ y2 ++ s2 ++ y3) with ((s0 ++ y1 ++ s1 ++ y2) ++ s2 ++ y3) by (rewrite <- !app_assoc; reflexivity).
    replace (s0 ++ x1 ++ s1 ++ x2 ++ s2 ++ zslice nl (nl + 16) f ++ zslice (nl + 16) cs f ++ zdrop cs f)
      with ((s0 ++ x1 ++ s1 ++ x2) ++ s2 ++ (zslice nl (nl + 16) f ++ zslice (nl + 16) cs f ++ zdrop cs f)) by (rewrite <- !app_assoc; reflexivity).
    rewrite !zslice_mid by (rewrite ?zlen_app, ?L0, ?L1, ?L1b, ?L2, ?L3, ?L3b, ?L4; lia). reflexivity. }
  (* applying the patch set *)
  intros sigbuf Hsb. unfold apply_patches, patch_list. cbn [p_hdr p_hdr_ranges p_sig_patch p_padding map app fst snd].
  rewrite Hsl.
  assert (C1 : zslice 16 (16 + 8) hf = y1) by (rewrite Hhf; apply zslice_mid; lia).
  assert (C2 : zslice lo (lo + n2) hf = y2).
  { rewrite Hhf. replace (s0 ++ y1 ++ s1 ++ y2 ++ s2 ++ y3) with ((s0 ++ y1 ++ s1) ++ y2 ++ s2 ++ y3) by (rewrite <- !app_assoc; reflexivity).
    apply zslice_mid; rewrite ?zlen_app, ?L0, ?L1b, ?L2, ?L3b; lia. }
  assert (C3 : zslice nl (nl + 16) hf = y3) by (unfold hf; apply zslice_end; [lia|rewrite Ly3; lia]).
  rewrite C1, C2, C3.
  assert (Hsort : sort_patches [(16, 8, y1); (lo, n2, y2); (nl, 16, y3); (cs, 0, zeros (sig_start - cs) ++ sigbuf)]
                  = [(16, 8, y1); (lo, n2, y2); (nl, 16, y3); (cs, 0, zeros (sig_start - cs) ++ sigbuf)]).
  { apply sort_sorted. cbn [sorted_off]. repeat split; try exact I.
    - intros q [<-|[<-|[<-|[]]]]; cbn [fst]; lia.
    - intros q [<-|[<-|[]]]; cbn [fst]; lia.
    - intros q [<-|[]]; cbn [fst]; lia.
    - intros q []. }
  rewrite Hsort.
  set (pad16 := zslice nl (nl + 16) f) in *. set (mid := zslice (nl + 16) cs f) in *. set (tail := zdrop cs f) in *.
  assert (Lp16 : zlen pad16 = 16) by (unfold pad16; rewrite zlen_zslice; lia).
  assert (Lmid : zlen mid = cs - nl - 16) by (unfold mid; rewrite zlen_zslice; lia).
  (* four steps *)
  pose proof (apply_step f [] s0 x1 (s1 ++ x2 ++ s2 ++ pad16 ++ mid ++ tail) y1) as S1. cbn [app] in S1. rewrite L0, L1 in S1. change (zlen (@nil Z)) with 0 in S1. rewrite !Z.add_0_l in S1.
  pose proof (apply_step f (s0 ++ x1) s1 x2 (s2 ++ pad16 ++ mid ++ tail) y2) as S2. rewrite !zlen_app, L0, L1, L2, L3 in S2.
  pose proof (apply_step f (s0 ++ x1 ++ s1 ++ x2) s2 pad16 (mid ++ tail) y3) as S3. rewrite !zlen_app, L0, L1, L2, L3, L4, Lp16 in S3.
  pose proof (apply_step f (s0 ++ x1 ++ s1 ++ x2 ++ s2 ++ pad16) mid [] tail (zeros (sig_start - cs) ++ sigbuf) []) as S4.
  rewrite !zlen_app, L0, L1, L2, L3, L4, Lp16, Lmid in S4. change (zlen (@nil Z)) with 0 in S4. rewrite ?Z.add_0_r in S4.
  replace (16 + (8 + (lo - 24 + (n2 + (nl - lo - n2 + 16)))) + (cs - nl - 16)) with cs in S4 by lia.
  replace (16 + (8 + (lo - 24 + (n2 + (nl - lo - n2 + 16))))) with (nl + 16) in S4 by lia.
  replace (nl + 16 + (cs - nl - 16)) with cs in S4 by lia.
  assert (E4 : apply_sorted f (nl + 16) [(cs, 0, zeros (sig_start - cs) ++ sigbuf)] = Ok (mid ++ (zeros (sig_start - cs) ++ sigbuf) ++ tail)).
  { apply (S4 tail); [rewrite Hf at 1; rewrite <- !app_assoc; reflexivity|]. cbn [apply_sorted]. reflexivity. }
  replace (16 + (8 + (lo - 24 + n2)) + (nl - lo - n2)) with nl in S3 by lia.
  replace (16 + (8 + (lo - 24 + n2))) with (lo + n2) in S3 by lia. replace (lo + n2 + (nl - lo - n2) + 16) with (nl + 16) in S3 by lia.
  replace (lo + n2 + (nl - lo - n2)) with nl in S3 by lia.
  assert (E3 : apply_sorted f (lo + n2) [(nl, 16, y3); (cs, 0, zeros (sig_start - cs) ++ sigbuf)] = Ok (s2 ++ y3 ++ mid ++ (zeros (sig_start - cs) ++ sigbuf) ++ tail)).
  { apply S3; [rewrite Hf at 1; rewrite <- !app_assoc; reflexivity|exact E4]. }
  replace (16 + 8 + (lo - 24) + n2) with (lo + n2) in S2 by lia. replace (16 + 8 + (lo - 24)) with lo in S2 by lia.
  assert (E2 : apply_sorted f 24 [(lo, n2, y2); (nl, 16, y3); (cs, 0, zeros (sig_start - cs) ++ sigbuf)]
               = Ok (s1 ++ y2 ++ s2 ++ y3 ++ mid ++ (zeros (sig_start - cs) ++ sigbuf) ++ tail)).
  { replace 24 with (16 + 8) at 1 by lia. apply S2; [rewrite Hf at 1; rewrite <- !app_assoc; reflexivity|exact E3]. }
  pose proof (S1 _ _ Hf E2) as E1. etransitivity; [exact E1|]. f_equal. rewrite Hhf. rewrite <- !app_assoc. reflexivity.
Qed.

(* ------------------------------------------------------------------ consequences for machos.Sign on an unsigned image *)
Lemma estimate_pos cs hs el rl : 0 <= cs -> 0 <= hs -> 0 <= el -> 0 <= rl -> mo_reuse_block 0 (estimate cs hs el rl) = false.
Proof.
  intros. unfold mo_reuse_block, estimate, mo_est2, mo_est1, mo_est0. rewrite Z.quot_div_nonneg by nia.
  pose proof (Z.div_pos (cs * (20 + hs)) 4096 ltac:(nia) ltac:(lia)). lia.
Qed.
(* C01 C03 C08: what is hashed is what is written: the bytes in front of the signature in the signed file ARE the stream whose pages went into the
   code directory; the signature buffer sits at the offset the new load command names; everything behind the code end follows unchanged *)
Theorem fresh_sign_output f hs el rl mp : macho_plan f hs el rl = Ok mp -> fresh_ok (mp_markers mp) f = true ->
  0 <= m_code_size (mp_markers mp) -> 0 <= hs -> 0 <= el -> 0 <= rl ->
  let pt := mp_patched mp in let m := mp_markers mp in
  p_sig_start pt = mo_align (m_code_size m) 8 /\ p_sig_start pt mod 8 = 0 /\
  forall sigbuf, zlen sigbuf = p_sig_buf_len pt -> exists g, apply_patches f (patch_list pt sigbuf) = Ok g /\
    ztake (p_sig_start pt) g = mp_stream mp /\
    zslice (p_sig_start pt) (p_sig_start pt + p_sig_buf_len pt) g = sigbuf /\
    zdrop (p_sig_start pt + p_sig_buf_len pt) g = zdrop (m_code_size m) f /\
    zslice (m_next_lc m) (m_next_lc m + 16) g =
      enc (m_le m) 4 (mm_wrap32 mo_lc_code_signature) ++ enc (m_le m) 4 16 ++ enc (m_le m) 4 (mm_wrap32 (p_sig_start pt)) ++ enc (m_le m) 4 (mm_wrap32 (p_sig_buf_len pt)).
Proof.
  unfold macho_plan. change (negb sign_m_layout_ok) with false. cbv iota.
  destruct (scan_file f) as [m| |] eqn:Es; cbn [bind]; try discriminate.
  destruct (patch_signature (zlen f) m (ztake (m_next_lc m) f) (estimate (m_code_size m) hs el rl)) as [pt| |] eqn:Ep; cbn [bind]; try discriminate.
  destruct (_ && _); [discriminate|]. intros [= <-]. cbn [mp_markers mp_patched mp_stream]. intros Hok Hc Hh He Hr.
  assert (Hsl : m_sig_len m = 0) by (unfold fresh_ok in Hok; repeat (apply andb_true_iff in Hok as [Hok ?]); lia).
  assert (Hre : mo_reuse_block (m_sig_len m) (estimate (m_code_size m) hs el rl) = false) by (rewrite Hsl; now apply estimate_pos).
  destruct (fresh_patches m f _ pt Hok Ep Hre) as [Hss [Hbl [Hpd [Hpr [Hhl [Hlc [_ [_ [_ Hap]]]]]]]]].
  assert (Hb : 28 <= m_next_lc m /\ m_next_lc m + 16 <= m_code_size m <= zlen f) by (unfold fresh_ok in Hok; repeat (apply andb_true_iff in Hok as [Hok ?]); destruct (mo_le_is_64 (m_magic m)); lia).
  destruct (align_spec (m_code_size m) 8 Hc ltac:(lia)) as [Hal Hmod]. change mo_align_file with 8 in *.
  split; [exact Hss|]. split; [rewrite Hss; exact Hmod|].
  intros sigbuf Hsb. eexists. split; [apply Hap; rewrite Hsb; exact Hbl|].
  set (nl := m_next_lc m) in *. set (cs := m_code_size m) in *. set (ss := mo_align cs 8) in *.
  set (mid := zslice (nl + 16) cs f). assert (Lmid : zlen mid = cs - nl - 16) by (unfold mid; rewrite zlen_zslice; lia).
  assert (Lz : zlen (zeros (ss - cs)) = ss - cs) by (apply zlen_zeros; lia).
  assert (Lpre : zlen (p_hdr pt ++ mid ++ zeros (ss - cs)) = ss) by (rewrite !zlen_app, Hhl, Lmid, Lz; lia).
  rewrite Hss. split; [|split; [|split]].
  - (* the prefix is the hashed stream *)
    replace (p_hdr pt ++ mid ++ zeros (ss - cs) ++ sigbuf ++ zdrop cs f) with ((p_hdr pt ++ mid ++ zeros (ss - cs)) ++ sigbuf ++ zdrop cs f) by (rewrite <- !app_assoc; reflexivity).
    rewrite <- Lpre at 1. rewrite ztake_app_exact. rewrite Hpd.
    unfold mo_code_limit. rewrite Hhl. rewrite !ztk_eq. change (ztake (cs - (nl + 16)) (zdrop (nl + 16) f)) with mid.
    rewrite <- Lpre at 2. rewrite ztake_all by lia. reflexivity.
  - replace (p_hdr pt ++ mid ++ zeros (ss - cs) ++ sigbuf ++ zdrop cs f) with ((p_hdr pt ++ mid ++ zeros (ss - cs)) ++ sigbuf ++ zdrop cs f) by (rewrite <- !app_assoc; reflexivity).
    apply zslice_mid; lia.
  - replace (p_hdr pt ++ mid ++ zeros (ss - cs) ++ sigbuf ++ zdrop cs f) with (((p_hdr pt ++ mid ++ zeros (ss - cs)) ++ sigbuf) ++ zdrop cs f) by (rewrite <- !app_assoc; reflexivity).
    replace (ss + p_sig_buf_len pt) with (zlen ((p_hdr pt ++ mid ++ zeros (ss - cs)) ++ sigbuf)) by (rewrite zlen_app, Lpre, Hsb; reflexivity).
    apply zdrop_app_exact.
  - rewrite Hbl. change mo_align_file with 8 in Hlc. fold ss in Hlc. rewrite <- Hlc. unfold zslice. rewrite zdrop_app_l by lia. rewrite ztake_app_l; [reflexivity|]. rewrite zlen_zdrop by lia. lia.
Qed.

(* ------------------------------------------------------------------ computed instances on the minimal image *)
Definition sign_twice (cms1 cms2 : bytes) : result (bytes * bytes) :=
  g1 <- macho_embed constH 0 (w_sparams [105; 100]) w_macho cms1 ;; g2 <- macho_embed constH 0 (w_sparams [105; 100]) g1 cms2 ;; Ok (g1, g2).
Definition verifies (cmsv : bytes -> bytes -> option (option (list (Z * bytes)) * option (list bytes))) (g : bytes) : bool :=
  match macho_extract_blob g with
  | Ok (Some b) => match cs_verify constH cmsv b (mkVP None None None) with Ok s => match verify_pages constH s g with Ok _ => true | _ => false end | _ => false end
  | _ => false
  end.
Definition cms_of (g : bytes) : option bytes :=
  match macho_extract_blob g with Ok (Some b) => match parse_signature constH b with Ok s => sg_cms s | _ => None end | _ => None end.
Theorem macho_laws_computed :
  match sign_twice [9; 9; 9] [7] with
  | Ok (g1, g2) =>
      fresh_ok (match scan_file w_macho with Ok m => m | _ => mkM false 0 0 0 1 1 1 0 0 0 0 0 0 0 0 end) w_macho = true /\
      cms_of g1 = Some [9; 9; 9] /\ cms_of g2 = Some [7] /\ verifies (fun _ _ => Some (None, None)) g1 = true /\ verifies (fun _ _ => Some (None, None)) g2 = true /\
      spec_payload g1 = spec_payload w_macho /\ spec_payload g2 = spec_payload w_macho /\ zlen g2 = zlen g1 /\
      macho_hashin constH 0 (w_sparams [105; 100]) g1 = macho_hashin constH 0 (w_sparams [105; 100]) w_macho /\
      match spec_image g1 with Some im => spec_codesig im = Some (128, 16392) | None => False end
  | _ => False
  end.
Proof. vm_compute. repeat split; reflexivity. Qed.
(* the trailing bytes of an image whose code ends at an odd offset are not hashed (relic e8e9586): the signed file verifies, they follow the signature *)
Theorem trailing_not_hashed :
  match macho_embed constH 0 (w_sparams [105; 100]) w_macho_trailing [9] with
  | Ok g => verifies (fun _ _ => Some (None, None)) g = true /\ zdrop (zlen g - 3) g = [6; 7; 8] /\ zslice 125 128 g = [0; 0; 0]
  | _ => False
  end.
Proof. vm_compute. repeat split; reflexivity. Qed.
(* the reservation is too small when the fixed parts exceed 16384 bytes: a 17000 byte identifier on the minimal image is refused (with an error) *)
Theorem size_estimate_refuted : macho_embed constH 0 (w_sparams (repeat 105 17000)) w_macho [9] = Err E_OVERFLOW.
Proof. vm_compute. reflexivity. Qed.
