(* FmtMACHO/Proofs.v — lemmas for part 1 (csblob): superblob round trip, specification readers, no-panic, Sign assembly, Verify soundness *)
From Relic Require Import Base.Prelude Base.Enc FmtMACHO.VpLang Generated.FmtMACHO_gen FmtMACHO.Model.
From Relic Require FmtMACHO.ProofsVP.

(* ------------------------------------------------------------------ list / slice helpers *)
Lemma ztake_app_exact {A} (a b : list A) : ztake (zlen a) (a ++ b) = a.
Proof. unfold ztake, zlen. rewrite Nat2Z.id, firstn_app, Nat.sub_diag, firstn_all. cbn. apply app_nil_r. Qed.
Lemma zdrop_app_exact {A} (a b : list A) : zdrop (zlen a) (a ++ b) = b.
Proof. unfold zdrop, zlen. rewrite Nat2Z.id, skipn_app, Nat.sub_diag, skipn_all. reflexivity. Qed.
Lemma zslice_mid {A} (a b c : list A) n m : n = zlen a -> m = zlen a + zlen b -> zslice n m (a ++ b ++ c) = b.
Proof.
  intros -> ->. unfold zslice. rewrite zdrop_app_exact. replace (zlen a + zlen b - zlen a) with (zlen b) by lia. apply ztake_app_exact.
Qed.
Lemma zslice_mid0 {A} (b c : list A) m : m = zlen b -> zslice 0 m (b ++ c) = b.
Proof. intros ->. apply (zslice_mid [] b c); cbn; reflexivity. Qed.
Lemma zslice_end {A} (a b : list A) n m : n = zlen a -> m = zlen a + zlen b -> zslice n m (a ++ b) = b.
Proof. intros Hn Hm. rewrite <- (app_nil_r b) at 1. now apply zslice_mid. Qed.
Lemma ztk_eq {A} n (l : list A) : ztk n l = ztake n l.
Proof.
  unfold ztk. destruct (Z.min_spec n (zlen l)) as [[_ ->]|[H ->]]; [reflexivity|]. rewrite !ztake_all by lia. reflexivity.
Qed.
Lemma zdp_eq {A} n (l : list A) : zdp n l = zdrop n l.
Proof.
  unfold zdp. destruct (Z.min_spec n (zlen l)) as [[_ ->]|[H ->]]; [reflexivity|]. rewrite !zdrop_all by lia. reflexivity.
Qed.
Lemma zlen_zeros n : 0 <= n -> zlen (zeros n) = n.
Proof. intros H. unfold zlen, zeros. rewrite repeat_length. lia. Qed.
Lemma zlen_be32 n : zlen (be32 n) = 4.
Proof. unfold be32. now rewrite be_enc_zlen. Qed.
Lemma rd32_be32 n r : 0 <= n < 4294967296 -> rd32 0 (be32 n ++ r) = n.
Proof.
  intros H. unfold rd32. rewrite (zslice_mid0 (be32 n) r) by (now rewrite zlen_be32). unfold be32. apply be_dec_enc. exact H.
Qed.
Lemma rd32_at a n r off : off = zlen a -> 0 <= n < 4294967296 -> rd32 off (a ++ be32 n ++ r) = n.
Proof.
  intros -> H. unfold rd32. rewrite (zslice_mid a (be32 n) r) by (rewrite ?zlen_be32; lia). unfold be32. apply be_dec_enc. exact H.
Qed.
Lemma crd32_at a n r off : off = zlen a -> 0 <= n < 4294967296 -> crd32 off (a ++ be32 n ++ r) = Ok n.
Proof.
  intros Ho H. unfold crd32. rewrite !zlen_app, zlen_be32. pose proof (zlen_nonneg a). pose proof (zlen_nonneg r).
  replace ((off <? 0) || (zlen a + (4 + zlen r) <? off + 4)) with false by lia. now rewrite rd32_at.
Qed.
Lemma crd32_0 n r : 0 <= n < 4294967296 -> crd32 0 (be32 n ++ r) = Ok n.
Proof. intros H. apply (crd32_at [] n r 0); [reflexivity|exact H]. Qed.
Lemma wrap32_small n : 0 <= n < 4294967296 -> mm_wrap32 n = n.
Proof. intros H. unfold mm_wrap32. apply Z.mod_small. exact H. Qed.
Lemma all_bytes_be32 n : all_bytes (be32 n) = true.
Proof. apply be_enc_bytes. Qed.

Lemma all_bytes_zslice a b l : all_bytes l = true -> all_bytes (zslice a b l) = true.
Proof.
  intros H. unfold zslice. assert (Hd : all_bytes (zdrop a l) = true).
  { rewrite <- (ztake_zdrop a l) in H. rewrite all_bytes_app in H. apply andb_true_iff in H. tauto. }
  rewrite <- (ztake_zdrop (b - a) (zdrop a l)) in Hd. rewrite all_bytes_app in Hd. apply andb_true_iff in Hd. tauto.
Qed.
Lemma zlen_zslice {A} a b (l : list A) : 0 <= a <= b -> b <= zlen l -> zlen (zslice a b l) = b - a.
Proof. intros H1 H2. unfold zslice. rewrite zlen_ztake; [lia|]. rewrite zlen_zdrop by lia. lia. Qed.
Lemma be32_of_slice l off : all_bytes l = true -> 0 <= off -> off + 4 <= zlen l -> be32 (rd32 off l) = zslice off (off + 4) l.
Proof.
  intros Hb H0 H1. unfold be32, rd32. set (s := zslice off (off + 4) l).
  assert (Hl : length s = 4%nat) by (pose proof (zlen_zslice off (off + 4) l ltac:(lia) ltac:(lia)) as Hz; unfold zlen in Hz; fold s in Hz; lia).
  rewrite <- Hl. apply be_enc_dec. apply all_bytes_zslice. exact Hb.
Qed.
Lemma split_0_4_8 {A} (l : list A) : 8 <= zlen l -> zslice 0 (0 + 4) l ++ zslice 4 (4 + 4) l ++ zdrop 8 l = l.
Proof.
  intros H. unfold zslice. rewrite zdrop_0. replace (0 + 4 - 0) with 4 by lia. replace (4 + 4 - 4) with 4 by lia.
  replace (zdrop 8 l) with (zdrop 4 (zdrop 4 l)) by (rewrite zdrop_zdrop by lia; reflexivity).
  rewrite (ztake_zdrop 4 (zdrop 4 l)). apply ztake_zdrop.
Qed.
Lemma rd32_range l off : all_bytes l = true -> 0 <= off -> off + 4 <= zlen l -> 0 <= rd32 off l < 4294967296.
Proof.
  intros Hb H0 H1. unfold rd32, be_dec.
  pose proof (le_dec_range (rev (zslice off (off + 4) l)) ltac:(rewrite all_bytes_rev; now apply all_bytes_zslice)) as Hr.
  assert (Hz : zlen (rev (zslice off (off + 4) l)) = 4) by (unfold zlen; rewrite rev_length; pose proof (zlen_zslice off (off + 4) l ltac:(lia) ltac:(lia)) as Hz; unfold zlen in Hz; lia).
  rewrite Hz in Hr. change (256 ^ 4) with 4294967296 in Hr. exact Hr.
Qed.

(* ------------------------------------------------------------------ newSuperItem *)
Lemma si_layout : si_layout_ok = true. Proof. reflexivity. Qed.
Lemma new_item_data magic payload : zlen payload + 8 < 4294967296 ->
  si_data (new_super_item magic payload) = be32 magic ++ be32 (zlen payload + 8) ++ payload.
Proof.
  intros H. unfold new_super_item. rewrite si_layout. cbn [si_data]. unfold si_len_val, si_total.
  rewrite wrap32_small by (pose proof (zlen_nonneg payload); lia).
  replace (8 + zlen payload - 8 - zlen payload) with 0 by lia. cbn [zeros Z.to_nat repeat]. now rewrite app_nil_r.
Qed.
Theorem new_item_wf magic payload : 0 <= magic < 4294967296 -> zlen payload + 8 < 4294967296 -> all_bytes payload = true ->
  let it := new_super_item magic payload in
  item_wf it /\ si_magic it = magic /\ zdrop 8 (si_data it) = payload /\ zlen (si_data it) = zlen payload + 8.
Proof.
  intros Hm Hl Hb it. pose proof (zlen_nonneg payload) as Hp.
  assert (Hd : si_data it = be32 magic ++ be32 (zlen payload + 8) ++ payload) by (apply new_item_data; exact Hl).
  assert (Hlen : zlen (si_data it) = zlen payload + 8) by (rewrite Hd, !zlen_app, !zlen_be32; lia).
  repeat split.
  - lia.
  - rewrite Hlen. rewrite Hd. apply (rd32_at (be32 magic)); [now rewrite zlen_be32|lia].
  - rewrite Hd. apply rd32_be32. exact Hm.
  - unfold it, new_super_item. cbn [si_type]. destruct (lookup magic cs_itypes) eqn:E; [|lia].
    revert E. unfold cs_itypes. cbn [lookup]. repeat (destruct (_ =? magic); [intros [= <-]; lia|]). discriminate.
  - unfold it, new_super_item. cbn [si_type]. destruct (lookup magic cs_itypes) eqn:E; [|lia].
    revert E. unfold cs_itypes. cbn [lookup]. repeat (destruct (_ =? magic); [intros [= <-]; lia|]). discriminate.
  - rewrite Hd, !all_bytes_app, !all_bytes_be32, Hb. reflexivity.
  - rewrite Hd. replace (be32 magic ++ be32 (zlen payload + 8) ++ payload) with ((be32 magic ++ be32 (zlen payload + 8)) ++ payload) by now rewrite app_assoc.
    replace 8 with (zlen (be32 magic ++ be32 (zlen payload + 8))) by (rewrite zlen_app, !zlen_be32; reflexivity). apply zdrop_app_exact.
  - exact Hlen.
Qed.

(* ------------------------------------------------------------------ marshalSuperBlob / parseSuper *)
Lemma sbw_layout : sbw_layout_ok = true. Proof. reflexivity. Qed.
Definition data_len (items : list sitem) : Z := zlen (concat (map si_data items)).
Lemma data_len_cons it r : data_len (it :: r) = zlen (si_data it) + data_len r.
Proof. unfold data_len. cbn [map concat]. now rewrite zlen_app. Qed.
Lemma data_len_nonneg items : 0 <= data_len items.
Proof. apply zlen_nonneg. Qed.

Lemma sb_index_len items : forall len, zlen (fst (sb_index items len)) = 8 * zlen items.
Proof.
  induction items as [|it r IH]; intros len; cbn [sb_index]; [reflexivity|].
  destruct (sb_index r _) as [ix fin] eqn:E. cbn [fst]. specialize (IH (mm_wrap32 (sbw_len_step len (zlen (si_data it))))). rewrite E in IH. cbn [fst] in IH.
  rewrite !zlen_app, !zlen_be32, IH, zlen_cons. lia.
Qed.
Lemma sb_index_fin items : forall len, 0 <= len -> len + data_len items < 4294967296 -> snd (sb_index items len) = len + data_len items.
Proof.
  induction items as [|it r IH]; intros len H0 H; cbn [sb_index].
  - cbn. unfold data_len. cbn. lia.
  - destruct (sb_index r _) as [ix fin] eqn:E. cbn [snd]. rewrite data_len_cons in *.
    pose proof (zlen_nonneg (si_data it)). pose proof (data_len_nonneg r).
    assert (Hs : mm_wrap32 (sbw_len_step len (zlen (si_data it))) = len + zlen (si_data it)).
    { unfold sbw_len_step. rewrite (wrap32_small (zlen (si_data it))) by lia. apply wrap32_small. lia. }
    rewrite Hs in E. specialize (IH (len + zlen (si_data it)) ltac:(lia) ltac:(lia)). rewrite E in IH. cbn [snd] in IH. lia.
Qed.

Lemma ps_items_ok : forall rest fuel i count pre_ix pre_data len data_off,
  Forall item_wf rest -> (length rest < fuel)%nat -> zlen pre_ix = 8 * i -> 0 <= i -> count = i + zlen rest ->
  len = data_off + zlen pre_data -> 0 <= data_off -> len + data_len rest < 4294967296 ->
  ps_items fuel i count (pre_ix ++ fst (sb_index rest len)) (pre_data ++ concat (map si_data rest)) data_off = Ok rest.
Proof.
  induction rest as [|it r IH]; intros fuel i count pre_ix pre_data len data_off Hwf Hf Hix Hi Hc Hlen Hd Hb.
  - destruct fuel; [cbn in Hf; lia|]. cbn [ps_items]. unfold sb_loop_cond. rewrite zlen_nil in Hc.
    replace (i <? count) with false by lia. reflexivity.
  - destruct fuel; [cbn in Hf; lia|]. cbn [ps_items]. unfold sb_loop_cond. rewrite zlen_cons in Hc.
    pose proof (zlen_nonneg r). replace (i <? count) with true by lia. cbn [negb].
    inversion Hwf as [|? ? [Hl8 [Hrl [Hrm [Hty Hab]]]] Hwf']; subst.
    cbn [sb_index]. destruct (sb_index r _) as [ix fin] eqn:E. cbn [fst].
    pose proof (zlen_nonneg pre_data) as Hpd. rewrite data_len_cons in Hb. pose proof (data_len_nonneg r) as Hdr.
    set (len := data_off + zlen pre_data) in *.
    unfold sb_rd_itype_at, sb_rd_ioff_at.
    rewrite (crd32_at pre_ix (si_type it)) by lia. cbn [bind].
    replace (pre_ix ++ be32 (si_type it) ++ be32 len ++ ix) with ((pre_ix ++ be32 (si_type it)) ++ be32 len ++ ix) by (now rewrite <- app_assoc).
    rewrite (crd32_at (pre_ix ++ be32 (si_type it)) len) by (rewrite ?zlen_app, ?zlen_be32; lia). cbn [bind].
    unfold sb_rel_off. replace (len - data_off) with (zlen pre_data) by (unfold len; lia).
    unfold sb_off_bad. rewrite !zlen_app. cbn [map concat]. rewrite zlen_app.
    pose proof (zlen_nonneg (concat (map si_data r))) as Hcr.
    replace ((zlen pre_data <? 0) || (zlen pre_data >? zlen pre_data + (zlen (si_data it) + zlen (concat (map si_data r))) - 8)) with false by lia.
    (* the item's own header *)
    assert (Hform : exists body, si_data it = be32 (si_magic it) ++ be32 (zlen (si_data it)) ++ body).
    { exists (zdrop 8 (si_data it)).
      replace (be32 (si_magic it)) with (zslice 0 (0 + 4) (si_data it)) by (rewrite <- Hrm; symmetry; apply be32_of_slice; [exact Hab|lia|lia]).
      replace (be32 (zlen (si_data it))) with (zslice 4 (4 + 4) (si_data it)) by (rewrite <- Hrl; symmetry; apply be32_of_slice; [exact Hab|lia|lia]).
      symmetry. apply split_0_4_8. lia. }
    destruct Hform as [body Hform].
    assert (Hm32 : 0 <= si_magic it < 4294967296) by (rewrite <- Hrm; apply rd32_range; [exact Hab|lia|lia]).
    unfold sb_rd_ilen_at, sb_rd_imagic_at.
    assert (Hrd_len : crd32 (zlen pre_data + 4) (pre_data ++ si_data it ++ concat (map si_data r)) = Ok (zlen (si_data it))).
    { rewrite Hform at 1. rewrite <- !app_assoc.
      replace (pre_data ++ be32 (si_magic it) ++ be32 (zlen (si_data it)) ++ body ++ concat (map si_data r))
        with ((pre_data ++ be32 (si_magic it)) ++ be32 (zlen (si_data it)) ++ body ++ concat (map si_data r)) by (now rewrite <- app_assoc).
      apply crd32_at; [rewrite zlen_app, zlen_be32; lia|lia]. }
    rewrite Hrd_len. cbn [bind].
    unfold sb_item_bad. rewrite ?zlen_app.
    replace ((zlen (si_data it) <? 8) || (zlen pre_data + zlen (si_data it) >? zlen pre_data + (zlen (si_data it) + zlen (concat (map si_data r))))) with false by lia.
    assert (Hrd_m : crd32 (zlen pre_data) (pre_data ++ si_data it ++ concat (map si_data r)) = Ok (si_magic it)).
    { rewrite Hform at 1. rewrite <- !app_assoc. apply crd32_at; [reflexivity|exact Hm32]. }
    rewrite Hrd_m. cbn [bind].
    unfold sb_item_lo, sb_item_hi, cslice. rewrite !zlen_app.
    replace ((zlen pre_data <? 0) || (zlen pre_data + zlen (si_data it) <? zlen pre_data) || (zlen pre_data + (zlen (si_data it) + zlen (concat (map si_data r))) <? zlen pre_data + zlen (si_data it))) with false by lia.
    rewrite (zslice_mid pre_data (si_data it)) by lia. cbn [bind].
    (* the rest *)
    assert (Hs : mm_wrap32 (sbw_len_step len (zlen (si_data it))) = len + zlen (si_data it)).
    { unfold sbw_len_step. rewrite (wrap32_small (zlen (si_data it))) by (unfold len in *; lia). apply wrap32_small. unfold len in *. lia. }
    rewrite Hs in E.
    specialize (IH fuel (i + 1) (i + (1 + zlen r)) ((pre_ix ++ be32 (si_type it)) ++ be32 len) (pre_data ++ si_data it) (len + zlen (si_data it)) data_off Hwf').
    rewrite E in IH. cbn [fst] in IH.
    replace ((pre_ix ++ be32 (si_type it)) ++ be32 len ++ ix) with (((pre_ix ++ be32 (si_type it)) ++ be32 len) ++ ix) by (now rewrite <- app_assoc).
    replace (pre_data ++ si_data it ++ concat (map si_data r)) with ((pre_data ++ si_data it) ++ concat (map si_data r)) by (now rewrite <- app_assoc).
    rewrite IH.
    + cbn [bind]. destruct it; reflexivity.
    + cbn [length] in Hf. lia.
    + rewrite !zlen_app, !zlen_be32. lia.
    + lia.
    + lia.
    + rewrite zlen_app. unfold len. lia.
    + exact Hd.
    + unfold len in *. lia.
Qed.

Lemma items_total_eq items : items_total items = 12 + 8 * zlen items + data_len items.
Proof. reflexivity. Qed.
Lemma marshal_form magic items : items_total items < 4294967296 ->
  marshal_super magic items =
  be32 magic ++ be32 (items_total items) ++ be32 (zlen items) ++ fst (sb_index items (12 + 8 * zlen items)) ++ concat (map si_data items).
Proof.
  intros Ht. unfold marshal_super. rewrite sbw_layout. cbn [negb].
  pose proof (zlen_nonneg items) as Hn. pose proof (data_len_nonneg items) as Hd. rewrite items_total_eq in Ht.
  assert (H0 : sbw_len0 (sbw_nints (zlen items)) = 12 + 8 * zlen items).
  { unfold sbw_len0, sbw_nints. rewrite wrap32_small by lia. lia. }
  rewrite H0. destruct (sb_index items (12 + 8 * zlen items)) as [ix total] eqn:E.
  pose proof (sb_index_fin items (12 + 8 * zlen items) ltac:(lia) ltac:(lia)) as Hf. rewrite E in Hf. cbn [snd fst] in *. subst total.
  unfold sbw_count_val. rewrite wrap32_small by lia. rewrite items_total_eq. reflexivity.
Qed.
Lemma marshal_len magic items : items_total items < 4294967296 -> zlen (marshal_super magic items) = items_total items.
Proof.
  intros Ht. rewrite marshal_form by exact Ht. rewrite !zlen_app, !zlen_be32, sb_index_len, items_total_eq. unfold data_len. lia.
Qed.

Theorem super_roundtrip magic items : 0 <= magic < 4294967296 -> Forall item_wf items -> items_total items < 4294967296 ->
  parse_super (marshal_super magic items) = Ok (magic, items).
Proof.
  intros Hm Hwf Ht. pose proof (marshal_len magic items Ht) as Hlen. unfold parse_super. rewrite Hlen.
  pose proof (zlen_nonneg items) as Hn. pose proof (data_len_nonneg items) as Hd. rewrite items_total_eq in *.
  unfold sb_short. replace (12 + 8 * zlen items + data_len items <? 12) with false by lia.
  rewrite marshal_form by (rewrite items_total_eq; exact Ht). rewrite items_total_eq.
  set (ix := fst (sb_index items (12 + 8 * zlen items))). set (dat := concat (map si_data items)).
  assert (Hix : zlen ix = 8 * zlen items) by apply sb_index_len.
  assert (Hdat : zlen dat = data_len items) by reflexivity.
  unfold sb_rd_magic_at, sb_rd_length_at, sb_rd_count_at.
  rewrite crd32_0 by lia. cbn [bind].
  rewrite (crd32_at (be32 magic) (12 + 8 * zlen items + data_len items)) by (rewrite ?zlen_be32; lia). cbn [bind].
  replace (be32 magic ++ be32 (12 + 8 * zlen items + data_len items) ++ be32 (zlen items) ++ ix ++ dat)
    with ((be32 magic ++ be32 (12 + 8 * zlen items + data_len items)) ++ be32 (zlen items) ++ ix ++ dat) by (now rewrite <- app_assoc).
  rewrite (crd32_at (be32 magic ++ be32 (12 + 8 * zlen items + data_len items)) (zlen items)) by (rewrite ?zlen_app, ?zlen_be32; lia). cbn [bind].
  unfold sb_len_bad. replace ((12 + 8 * zlen items + data_len items <? 8) || (12 + 8 * zlen items + data_len items >? 12 + 8 * zlen items + data_len items)) with false by lia.
  unfold sb_hdr_skip, cslice.
  set (all := (be32 magic ++ be32 (12 + 8 * zlen items + data_len items)) ++ be32 (zlen items) ++ ix ++ dat).
  assert (Hall : zlen all = 12 + 8 * zlen items + data_len items) by (unfold all; rewrite !zlen_app, !zlen_be32; lia).
  rewrite Hall. replace ((12 <? 0) || (12 + 8 * zlen items + data_len items <? 12) || (12 + 8 * zlen items + data_len items <? 12 + 8 * zlen items + data_len items)) with false by lia.
  assert (Hb1 : zslice 12 (12 + 8 * zlen items + data_len items) all = ix ++ dat).
  { unfold all. replace ((be32 magic ++ be32 (12 + 8 * zlen items + data_len items)) ++ be32 (zlen items) ++ ix ++ dat)
      with (((be32 magic ++ be32 (12 + 8 * zlen items + data_len items)) ++ be32 (zlen items)) ++ ix ++ dat) by (now rewrite <- app_assoc).
    apply zslice_end; rewrite !zlen_app, !zlen_be32; lia. }
  rewrite Hb1. cbn [bind]. rewrite zlen_app, Hix, Hdat.
  unfold sb_index_short. replace (8 * zlen items + data_len items <? 8 * zlen items) with false by lia.
  unfold sb_index_bytes.
  replace ((0 <? 0) || (8 * zlen items <? 0) || (8 * zlen items + data_len items <? 8 * zlen items)) with false by lia.
  rewrite (zslice_mid0 ix dat) by lia. cbn [bind].
  replace ((8 * zlen items <? 0) || (8 * zlen items + data_len items <? 8 * zlen items) || (8 * zlen items + data_len items <? 8 * zlen items + data_len items)) with false by lia.
  rewrite (zslice_end ix dat) by lia. cbn [bind].
  unfold sb_data_off. rewrite Hdat. replace (12 + 8 * zlen items + data_len items - data_len items) with (12 + 8 * zlen items) by lia.
  pose proof (ps_items_ok items (S (Z.to_nat (zlen items))) 0 (zlen items) [] [] (12 + 8 * zlen items) (12 + 8 * zlen items) Hwf) as Hps.
  cbn [app] in Hps. fold ix dat in Hps. rewrite Hps; [reflexivity|unfold zlen; lia|reflexivity|lia|lia|cbn; lia|lia|lia].
Qed.

(* ------------------------------------------------------------------ the cs_blobs.h reader on marshalSuperBlob's output *)
Lemma item_form it : item_wf it -> exists body, si_data it = be32 (si_magic it) ++ be32 (zlen (si_data it)) ++ body /\ 0 <= si_magic it < 4294967296.
Proof.
  intros [Hl8 [Hrl [Hrm [Hty Hab]]]]. exists (zdrop 8 (si_data it)). split.
  - replace (be32 (si_magic it)) with (zslice 0 (0 + 4) (si_data it)) by (rewrite <- Hrm; symmetry; apply be32_of_slice; [exact Hab|lia|lia]).
    replace (be32 (zlen (si_data it))) with (zslice 4 (4 + 4) (si_data it)) by (rewrite <- Hrl; symmetry; apply be32_of_slice; [exact Hab|lia|lia]).
    symmetry. apply split_0_4_8. lia.
  - rewrite <- Hrm. apply rd32_range; [exact Hab|lia|lia].
Qed.
Lemma spec_blob_at_item pre it post : item_wf it -> zlen pre + zlen (si_data it) < 4294967296 ->
  spec_blob_at (pre ++ si_data it ++ post) (zlen pre) = Some (si_magic it, si_data it).
Proof.
  intros Hwf Hb. destruct (item_form it Hwf) as [body [Hf Hm]]. destruct Hwf as [Hl8 _].
  pose proof (zlen_nonneg pre). pose proof (zlen_nonneg post). unfold spec_blob_at. rewrite !zlen_app.
  replace ((zlen pre <? 0) || (zlen pre + (zlen (si_data it) + zlen post) <? zlen pre + 8)) with false by lia.
  assert (Hlen : rd32 (zlen pre + 4) (pre ++ si_data it ++ post) = zlen (si_data it)).
  { rewrite Hf at 1. rewrite <- !app_assoc.
    replace (pre ++ be32 (si_magic it) ++ be32 (zlen (si_data it)) ++ body ++ post) with ((pre ++ be32 (si_magic it)) ++ be32 (zlen (si_data it)) ++ body ++ post) by (now rewrite <- app_assoc).
    apply rd32_at; [rewrite zlen_app, zlen_be32; lia|lia]. }
  rewrite Hlen. replace ((zlen (si_data it) <? 8) || (zlen pre + (zlen (si_data it) + zlen post) <? zlen pre + zlen (si_data it))) with false by lia.
  f_equal. f_equal.
  - rewrite Hf at 1. rewrite <- !app_assoc. apply rd32_at; [reflexivity|exact Hm].
  - apply zslice_mid; lia.
Qed.
Lemma spec_index_ok : forall rest i hdr pre_ix pre_data len,
  Forall item_wf rest -> zlen hdr = 12 -> zlen pre_ix = 8 * i -> 0 <= i ->
  len = 12 + 8 * (i + zlen rest) + zlen pre_data -> len + data_len rest < 4294967296 ->
  spec_index (length rest) i (hdr ++ (pre_ix ++ fst (sb_index rest len)) ++ pre_data ++ concat (map si_data rest)) = Some rest.
Proof.
  induction rest as [|it r IH]; intros i hdr pre_ix pre_data len Hwf Hh Hix Hi Hlen Hb; [reflexivity|].
  cbn [length spec_index]. inversion Hwf as [|? ? Hit Hwf']; subst.
  cbn [sb_index]. destruct (sb_index r _) as [ix fin] eqn:E. cbn [fst].
  rewrite zlen_cons in *. rewrite data_len_cons in Hb. pose proof (zlen_nonneg r). pose proof (zlen_nonneg pre_data). pose proof (data_len_nonneg r).
  pose proof (zlen_nonneg (si_data it)). destruct Hit as [Hl8 [Hrl [Hrm [Hty Hab]]]].
  set (len := 12 + 8 * (i + (1 + zlen r)) + zlen pre_data) in *.
  cbn [map concat].
  assert (Hix_r : zlen ix = 8 * zlen r).
  { pose proof (sb_index_len r (mm_wrap32 (sbw_len_step len (zlen (si_data it))))) as Hl. rewrite E in Hl. exact Hl. }
  (* type and offset of entry i *)
  assert (Ht : rd32 (12 + 8 * i) (hdr ++ (pre_ix ++ be32 (si_type it) ++ be32 len ++ ix) ++ pre_data ++ si_data it ++ concat (map si_data r)) = si_type it).
  { replace (hdr ++ (pre_ix ++ be32 (si_type it) ++ be32 len ++ ix) ++ pre_data ++ si_data it ++ concat (map si_data r))
      with ((hdr ++ pre_ix) ++ be32 (si_type it) ++ (be32 len ++ ix) ++ pre_data ++ si_data it ++ concat (map si_data r)) by (rewrite <- !app_assoc; reflexivity).
    apply rd32_at; [rewrite zlen_app; lia|lia]. }
  assert (Ho : rd32 (12 + 8 * i + 4) (hdr ++ (pre_ix ++ be32 (si_type it) ++ be32 len ++ ix) ++ pre_data ++ si_data it ++ concat (map si_data r)) = len).
  { replace (hdr ++ (pre_ix ++ be32 (si_type it) ++ be32 len ++ ix) ++ pre_data ++ si_data it ++ concat (map si_data r))
      with ((hdr ++ pre_ix ++ be32 (si_type it)) ++ be32 len ++ ix ++ pre_data ++ si_data it ++ concat (map si_data r)) by (rewrite <- !app_assoc; reflexivity).
    apply rd32_at; [rewrite !zlen_app, zlen_be32; lia|unfold len; lia]. }
  rewrite Ht, Ho.
  assert (Hbl : spec_blob_at (hdr ++ (pre_ix ++ be32 (si_type it) ++ be32 len ++ ix) ++ pre_data ++ si_data it ++ concat (map si_data r)) len = Some (si_magic it, si_data it)).
  { replace (hdr ++ (pre_ix ++ be32 (si_type it) ++ be32 len ++ ix) ++ pre_data ++ si_data it ++ concat (map si_data r))
      with ((hdr ++ (pre_ix ++ be32 (si_type it) ++ be32 len ++ ix) ++ pre_data) ++ si_data it ++ concat (map si_data r)) by (rewrite <- !app_assoc; reflexivity).
    assert (Hpre : zlen (hdr ++ (pre_ix ++ be32 (si_type it) ++ be32 len ++ ix) ++ pre_data) = len) by (rewrite !zlen_app, !zlen_be32; unfold len; lia).
    rewrite <- Hpre at 2. apply spec_blob_at_item; [exact (conj Hl8 (conj Hrl (conj Hrm (conj Hty Hab))))|rewrite Hpre; unfold len in *; lia]. }
  rewrite Hbl.
  assert (Hs : mm_wrap32 (sbw_len_step len (zlen (si_data it))) = len + zlen (si_data it)).
  { unfold sbw_len_step. rewrite (wrap32_small (zlen (si_data it))) by (unfold len in *; lia). apply wrap32_small. unfold len in *. lia. }
  rewrite Hs in E.
  specialize (IH (i + 1) hdr ((pre_ix ++ be32 (si_type it)) ++ be32 len) (pre_data ++ si_data it) (len + zlen (si_data it)) Hwf' Hh).
  rewrite E in IH. cbn [fst] in IH.
  replace (hdr ++ (pre_ix ++ be32 (si_type it) ++ be32 len ++ ix) ++ pre_data ++ si_data it ++ concat (map si_data r))
    with (hdr ++ (((pre_ix ++ be32 (si_type it)) ++ be32 len) ++ ix) ++ (pre_data ++ si_data it) ++ concat (map si_data r)) by (rewrite <- !app_assoc; reflexivity).
  rewrite IH.
  - destruct it; reflexivity.
  - rewrite !zlen_app, !zlen_be32. lia.
  - lia.
  - rewrite zlen_app. unfold len. lia.
  - unfold len in *. lia.
Qed.
Theorem super_spec_reader magic items : 0 <= magic < 4294967296 -> Forall item_wf items -> items_total items < 4294967296 ->
  spec_super (marshal_super magic items) = Some (magic, items) /\ zlen (marshal_super magic items) = items_total items /\
  rd32 4 (marshal_super magic items) = items_total items.
Proof.
  intros Hm Hwf Ht. pose proof (marshal_len magic items Ht) as Hlen. split; [|split; [exact Hlen|]].
  - unfold spec_super. rewrite Hlen. pose proof (zlen_nonneg items) as Hn. pose proof (data_len_nonneg items) as Hd. rewrite items_total_eq in *.
    replace (12 + 8 * zlen items + data_len items <? 12) with false by lia.
    rewrite marshal_form by (rewrite items_total_eq; exact Ht). rewrite items_total_eq.
    set (ix := fst (sb_index items (12 + 8 * zlen items))). set (dat := concat (map si_data items)).
    assert (H4 : rd32 4 (be32 magic ++ be32 (12 + 8 * zlen items + data_len items) ++ be32 (zlen items) ++ ix ++ dat) = 12 + 8 * zlen items + data_len items)
      by (apply rd32_at; [now rewrite zlen_be32|lia]).
    assert (H8 : rd32 8 (be32 magic ++ be32 (12 + 8 * zlen items + data_len items) ++ be32 (zlen items) ++ ix ++ dat) = zlen items).
    { replace (be32 magic ++ be32 (12 + 8 * zlen items + data_len items) ++ be32 (zlen items) ++ ix ++ dat)
        with ((be32 magic ++ be32 (12 + 8 * zlen items + data_len items)) ++ be32 (zlen items) ++ ix ++ dat) by (now rewrite <- app_assoc).
      apply rd32_at; [rewrite zlen_app, !zlen_be32; lia|lia]. }
    rewrite H4, H8.
    replace ((12 + 8 * zlen items + data_len items <? 12 + 8 * zlen items + data_len items) || (12 + 8 * zlen items + data_len items <? 12 + 8 * zlen items)) with false by lia.
    pose proof (spec_index_ok items 0 (be32 magic ++ be32 (12 + 8 * zlen items + data_len items) ++ be32 (zlen items)) [] [] (12 + 8 * zlen items) Hwf) as Hsi.
    cbn [app] in Hsi. fold ix dat in Hsi.
    replace (be32 magic ++ be32 (12 + 8 * zlen items + data_len items) ++ be32 (zlen items) ++ ix ++ dat)
      with ((be32 magic ++ be32 (12 + 8 * zlen items + data_len items) ++ be32 (zlen items)) ++ ix ++ dat) by (rewrite <- !app_assoc; reflexivity).
    unfold zlen at 1. rewrite Nat2Z.id. rewrite Hsi.
    + f_equal. f_equal. rewrite <- !app_assoc. apply rd32_be32. exact Hm.
    + rewrite !zlen_app, !zlen_be32. lia.
    + reflexivity.
    + lia.
    + cbn. lia.
    + lia.
  - rewrite marshal_form by exact Ht. apply rd32_at; [now rewrite zlen_be32|]. pose proof (zlen_nonneg items). pose proof (data_len_nonneg items). rewrite items_total_eq in *. lia.
Qed.

(* ------------------------------------------------------------------ parseSuper never panics *)
Ltac bdestruct c := let E := fresh "E" in destruct c eqn:E.
Lemma crd32_ok off l : 0 <= off -> off + 4 <= zlen l -> crd32 off l = Ok (rd32 off l).
Proof. intros H0 H1. unfold crd32. replace ((off <? 0) || (zlen l <? off + 4)) with false by lia. reflexivity. Qed.
Lemma cslice_ok a b l : 0 <= a <= b -> b <= zlen l -> cslice a b l = Ok (zslice a b l).
Proof. intros H0 H1. unfold cslice. replace ((a <? 0) || (b <? a) || (zlen l <? b)) with false by lia. reflexivity. Qed.

Lemma ps_items_no_panic : forall fuel i count indexes blob data_off p,
  zlen indexes = 8 * count -> 0 <= i -> (Z.to_nat (count - i) < fuel)%nat ->
  ps_items fuel i count indexes blob data_off <> Panic p.
Proof.
  induction fuel as [|fuel IH]; intros i count indexes blob data_off p Hix Hi Hf; [lia|].
  cbn [ps_items]. unfold sb_loop_cond. destruct (i <? count) eqn:Ec; cbn [negb]; [|discriminate].
  unfold sb_rd_itype_at, sb_rd_ioff_at. rewrite !crd32_ok by lia. cbn [bind].
  unfold sb_rel_off, sb_off_bad. set (offset := rd32 (4 + 8 * i) indexes - data_off).
  destruct ((offset <? 0) || (offset >? zlen blob - 8)) eqn:Eo; [discriminate|].
  unfold sb_rd_ilen_at. rewrite crd32_ok by lia. cbn [bind].
  unfold sb_item_bad. set (length := rd32 (offset + 4) blob).
  destruct ((length <? 8) || (offset + length >? zlen blob)) eqn:El; [discriminate|].
  unfold sb_rd_imagic_at. rewrite crd32_ok by lia. cbn [bind].
  unfold sb_item_lo, sb_item_hi. rewrite cslice_ok by lia. cbn [bind].
  specialize (IH (i + 1) count indexes blob data_off).
  destruct (ps_items fuel (i + 1) count indexes blob data_off) as [r| |q] eqn:Er; cbn [bind]; try discriminate.
  exfalso. apply (IH q); [exact Hix|lia|lia|reflexivity].
Qed.
Theorem parse_super_no_panic blob p : all_bytes blob = true -> parse_super blob <> Panic p.
Proof.
  intros Hb. unfold parse_super, sb_short. destruct (zlen blob <? 12) eqn:E; [discriminate|].
  unfold sb_rd_magic_at, sb_rd_length_at, sb_rd_count_at. rewrite !crd32_ok by lia. cbn [bind].
  unfold sb_len_bad. destruct ((rd32 4 blob <? 8) || (rd32 4 blob >? zlen blob)); [discriminate|].
  unfold sb_hdr_skip. rewrite cslice_ok by lia. cbn [bind].
  pose proof (rd32_range blob 8 Hb ltac:(lia) ltac:(lia)) as Hc.
  assert (Hl1 : zlen (zslice 12 (zlen blob) blob) = zlen blob - 12) by (apply zlen_zslice; lia).
  unfold sb_index_short, sb_index_bytes. rewrite Hl1. destruct (zlen blob - 12 <? 8 * rd32 8 blob) eqn:E2; [discriminate|].
  rewrite !cslice_ok by lia. cbn [bind]. unfold sb_data_off.
  destruct (ps_items _ 0 _ _ _ _) as [r| |q] eqn:Er; cbn [bind]; try discriminate.
  exfalso. eapply ps_items_no_panic; [| |  |exact Er].
  - rewrite zlen_zslice by lia. lia.
  - lia.
  - lia.
Qed.

(* ------------------------------------------------------------------ parseCodeDirectory never panics *)
Lemma rdw_nonneg off w l : all_bytes l = true -> 0 <= rdw off w l.
Proof.
  intros Hb. unfold rdw, be_dec.
  pose proof (le_dec_range (rev (zslice off (off + w) l)) ltac:(rewrite all_bytes_rev; now apply all_bytes_zslice)) as Hr. lia.
Qed.
Lemma index0_bounds l : forall k, index0 l k = -1 \/ (k <= index0 l k < k + zlen l).
Proof.
  induction l as [|b r IH]; intros k; cbn [index0]; [left; reflexivity|].
  rewrite zlen_cons. pose proof (zlen_nonneg r). destruct (b =? 0); [right; lia|]. destruct (IH (k + 1)) as [->|H1]; [left; reflexivity|right; lia].
Qed.
Lemma cstring_no_panic blob i p : 0 <= i -> cstring blob i <> Panic p.
Proof.
  intros Hi. unfold cstring, cstr_off_bad. destruct (i >=? zlen blob) eqn:E; [discriminate|].
  rewrite cslice_ok by lia. cbn [bind]. unfold cstr_no_nul.
  destruct (index0_bounds (zslice i (zlen blob) blob) 0) as [->|Hb]; [cbn; discriminate|].
  destruct (index0 _ 0 <? 0) eqn:E2; [discriminate|]. rewrite cslice_ok by lia. discriminate.
Qed.
Lemma hash_func_ok ht hl hf : hash_func ht hl = Ok hf -> hl = go_hash_size hf /\ 20 <= hl.
Proof.
  unfold hash_func, cs_hash_unknown, cs_hash_size_bad.
  destruct (Z.eq_dec ht 1) as [->|N1].
  { replace (find _ cs_hash_func_of) with (Some (1, (3, 20))) by reflexivity. cbn [fst snd]. change (3 =? 0) with false. change (go_hash_size 3) with 20. cbv iota.
    destruct (20 =? hl) eqn:E; cbn [negb]; [intros [= <-]; change (go_hash_size 3) with 20; lia|discriminate]. }
  destruct (Z.eq_dec ht 2) as [->|N2].
  { replace (find _ cs_hash_func_of) with (Some (2, (5, 32))) by reflexivity. cbn [fst snd]. change (5 =? 0) with false. change (go_hash_size 5) with 32. cbv iota.
    destruct (32 =? hl) eqn:E; cbn [negb]; [intros [= <-]; change (go_hash_size 5) with 32; lia|discriminate]. }
  destruct (Z.eq_dec ht 4) as [->|N4].
  { replace (find _ cs_hash_func_of) with (Some (4, (6, 48))) by reflexivity. cbn [fst snd]. change (6 =? 0) with false. change (go_hash_size 6) with 48. cbv iota.
    destruct (48 =? hl) eqn:E; cbn [negb]; [intros [= <-]; change (go_hash_size 6) with 48; lia|discriminate]. }
  replace (find _ cs_hash_func_of) with (@None (Z * (Z * Z))).
  - cbn [fst snd]. change (0 =? 0) with true. cbv iota. discriminate.
  - unfold cs_hash_func_of. cbn [find fst]. rewrite (proj2 (Z.eqb_neq 1 ht)) by lia. rewrite (proj2 (Z.eqb_neq 2 ht)) by lia. rewrite (proj2 (Z.eqb_neq 4 ht)) by lia. reflexivity.
Qed.
Lemma slot_no_panic blob hb hl i p : 0 <= pcd_slot_lo hb hl i -> pcd_slot_lo hb hl i <= pcd_slot_hi hb hl i -> pcd_slot_hi hb hl i <= zlen blob ->
  slot blob hb hl i <> Panic p.
Proof. intros H0 H1 H2. unfold slot. rewrite cslice_ok by lia. discriminate. Qed.
Lemma code_loop_no_panic : forall fuel blob hb hl i n p, 0 <= hb -> 0 <= hl -> 0 <= i -> hb + n * hl <= zlen blob -> (Z.to_nat (n - i) < fuel)%nat ->
  code_loop fuel blob hb hl i n <> Panic p.
Proof.
  induction fuel as [|fuel IH]; intros blob hb hl i n p Hb Hl Hi Hn Hf; [lia|].
  cbn [code_loop]. unfold pcd_code_loop. destruct (i <? n) eqn:E; cbn [negb]; [|discriminate].
  unfold pcd_code_arg. destruct (slot blob hb hl i) as [v| |q] eqn:Es; cbn [bind]; try discriminate.
  - specialize (IH blob hb hl (i + 1) n). destruct (code_loop fuel blob hb hl (i + 1) n) as [r| |q] eqn:Er; cbn [bind]; try discriminate.
    exfalso. apply (IH q); try assumption; try reflexivity; lia.
  - exfalso. revert Es. apply slot_no_panic; unfold pcd_slot_lo, pcd_slot_hi; nia.
Qed.
Lemma special_loop_no_panic : forall fuel blob hb hl i n p, 0 <= hl -> 1 <= i -> n * hl <= hb -> hb <= zlen blob -> (Z.to_nat (n + 1 - i) < fuel)%nat ->
  special_loop fuel blob hb hl i n <> Panic p.
Proof.
  induction fuel as [|fuel IH]; intros blob hb hl i n p Hl Hi Hn Hb Hf; [lia|].
  cbn [special_loop]. unfold pcd_special_loop. destruct (i <=? n) eqn:E; cbn [negb]; [|discriminate].
  unfold pcd_special_arg. destruct (slot blob hb hl (- i)) as [v| |q] eqn:Es; cbn [bind]; try discriminate.
  - specialize (IH blob hb hl (i + 1) n). destruct (special_loop fuel blob hb hl (i + 1) n) as [r| |q] eqn:Er; cbn [bind]; try discriminate.
    exfalso. apply (IH q); try assumption; try reflexivity; lia.
  - exfalso. revert Es. apply slot_no_panic; unfold pcd_slot_lo, pcd_slot_hi; nia.
Qed.
Theorem parse_cd_no_panic H blob itype p : all_bytes blob = true -> parse_code_directory H blob itype <> Panic p.
Proof.
  intros Hb. unfold parse_code_directory. destruct (zlen blob <? cdh_size) eqn:E0; [discriminate|].
  set (hdr := read_hdr blob).
  assert (Hio : 0 <= h_identoff hdr) by (unfold hdr, read_hdr; cbn [h_identoff]; apply rdw_nonneg; exact Hb).
  assert (Hto : 0 <= h_teamoff hdr).
  { unfold hdr, read_hdr. cbn [h_teamoff]. unfold zf. destruct (existsb _ _); [lia|apply rdw_nonneg; exact Hb]. }
  assert (Hnc : 0 <= h_ncode hdr) by (unfold hdr, read_hdr; cbn [h_ncode]; apply rdw_nonneg; exact Hb).
  assert (Hns : 0 <= h_nspecial hdr) by (unfold hdr, read_hdr; cbn [h_nspecial]; apply rdw_nonneg; exact Hb).
  assert (Hho : 0 <= h_hashoff hdr) by (unfold hdr, read_hdr; cbn [h_hashoff]; apply rdw_nonneg; exact Hb).
  destruct (if pcd_has_ident (h_identoff hdr) then cstring blob (h_identoff hdr) else Ok []) as [ident| |q] eqn:Ei; cbn [bind]; try discriminate.
  2:{ exfalso. destruct (pcd_has_ident _); [|discriminate]. revert Ei. apply cstring_no_panic. exact Hio. }
  destruct (if pcd_has_team (h_teamoff hdr) then cstring blob (h_teamoff hdr) else Ok []) as [team| |q] eqn:Et; cbn [bind]; try discriminate.
  2:{ exfalso. destruct (pcd_has_team _); [|discriminate]. revert Et. apply cstring_no_panic. exact Hto. }
  destruct (pcd_has_scatter _); [discriminate|].
  destruct (hash_func (h_hashtype hdr) (h_hashsize hdr)) as [hf| |q] eqn:Eh; cbn [bind]; try discriminate.
  2:{ exfalso. revert Eh. unfold hash_func. destruct (cs_hash_unknown _); [discriminate|]. destruct (cs_hash_size_bad _ _); discriminate. }
  destruct (hash_func_ok _ _ _ Eh) as [_ Hhl].
  unfold pcd_slots_bad. destruct ((h_nspecial hdr * h_hashsize hdr >? h_hashoff hdr) || (h_hashoff hdr + h_ncode hdr * h_hashsize hdr >? zlen blob)) eqn:Es; [discriminate|].
  assert (Hal : alloc (zlen blob) (24 * h_ncode hdr) = Ok tt).
  { unfold alloc, alloc_limit. replace (24 * h_ncode hdr <? 0) with false by lia.
    replace (64 * zlen blob + 1048576 <? 24 * h_ncode hdr) with false by nia. reflexivity. }
  rewrite Hal. cbn [bind].
  destruct (code_loop _ blob _ _ pcd_code_loop_init _) as [codes| |q] eqn:Ec; cbn [bind]; try discriminate.
  2:{ exfalso. revert Ec. apply code_loop_no_panic; unfold pcd_code_loop_init; try lia. }
  destruct (special_loop _ blob _ _ pcd_special_loop_init _) as [sp| |q] eqn:Esp; cbn [bind]; try discriminate.
  exfalso. revert Esp. apply special_loop_no_panic; unfold pcd_special_loop_init; try lia; nia.
Qed.

(* ------------------------------------------------------------------ parseSignature / Verify / VerifyPages never panic *)
Lemma ps_items_bytes : forall fuel i count indexes blob data_off its, all_bytes blob = true ->
  ps_items fuel i count indexes blob data_off = Ok its -> Forall (fun it => all_bytes (si_data it) = true) its.
Proof.
  induction fuel as [|fuel IH]; intros i count indexes blob data_off its Hb; cbn [ps_items]; [discriminate|].
  destruct (negb (sb_loop_cond i count)); [intros [= <-]; constructor|].
  destruct (crd32 _ indexes) as [t| |]; cbn [bind]; try discriminate.
  destruct (crd32 _ indexes) as [o| |]; cbn [bind]; try discriminate.
  destruct (sb_off_bad _ _); [discriminate|].
  destruct (crd32 _ blob) as [l| |]; cbn [bind]; try discriminate.
  destruct (sb_item_bad _ _ _); [discriminate|].
  destruct (crd32 _ blob) as [m| |]; cbn [bind]; try discriminate.
  destruct (cslice _ _ blob) as [d| |] eqn:Ed; cbn [bind]; try discriminate.
  destruct (ps_items fuel _ _ _ _ _) as [r| |] eqn:Er; cbn [bind]; try discriminate.
  intros [= <-]. constructor.
  - cbn [si_data]. unfold cslice in Ed. destruct (_ || _); [discriminate|]. injection Ed as <-. apply all_bytes_zslice. exact Hb.
  - eapply IH; eassumption.
Qed.
Lemma parse_super_bytes blob m its : all_bytes blob = true -> parse_super blob = Ok (m, its) -> Forall (fun it => all_bytes (si_data it) = true) its.
Proof.
  intros Hb. unfold parse_super. destruct (sb_short _); [discriminate|].
  destruct (crd32 _ blob) as [a| |]; cbn [bind]; try discriminate.
  destruct (crd32 _ blob) as [b| |]; cbn [bind]; try discriminate.
  destruct (crd32 _ blob) as [c| |]; cbn [bind]; try discriminate.
  destruct (sb_len_bad _ _); [discriminate|].
  destruct (cslice _ _ blob) as [b1| |] eqn:E1; cbn [bind]; try discriminate.
  destruct (sb_index_short _ _); [discriminate|].
  destruct (cslice _ _ b1) as [ix| |]; cbn [bind]; try discriminate.
  destruct (cslice _ _ b1) as [b2| |] eqn:E2; cbn [bind]; try discriminate.
  destruct (ps_items _ _ _ _ _ _) as [r| |] eqn:Er; cbn [bind]; try discriminate.
  intros [= _ <-]. eapply ps_items_bytes; [|exact Er].
  unfold cslice in E1, E2. destruct (_ || _) in E1; [discriminate|]. injection E1 as <-. destruct (_ || _) in E2; [discriminate|]. injection E2 as <-.
  apply all_bytes_zslice. apply all_bytes_zslice. exact Hb.
Qed.

Section NoPanic.
  Variable H : Z -> bytes -> bytes.
  Variable cms_verify : bytes -> bytes -> option (option (list (Z * bytes)) * option (list bytes)).

  Definition dirs_ok (s : sigblob) : Prop := Forall (fun d => 0 <= h_pagesize (d_hdr d)) (sg_dirs s).
  Lemma parse_cd_pagesize blob itype d : all_bytes blob = true -> parse_code_directory H blob itype = Ok d -> 0 <= h_pagesize (d_hdr d).
  Proof.
    intros Hb. unfold parse_code_directory. destruct (_ <? _); [discriminate|].
    destruct (if pcd_has_ident _ then _ else _) as [a| |]; cbn [bind]; try discriminate.
    destruct (if pcd_has_team _ then _ else _) as [b| |]; cbn [bind]; try discriminate.
    destruct (pcd_has_scatter _); [discriminate|].
    destruct (hash_func _ _) as [hf| |]; cbn [bind]; try discriminate.
    destruct (pcd_slots_bad _ _ _ _ _); [discriminate|].
    destruct (alloc _ _) as [u| |]; cbn [bind]; try discriminate.
    destruct (code_loop _ _ _ _ _ _) as [c| |]; cbn [bind]; try discriminate.
    destruct (special_loop _ _ _ _ _ _) as [sp| |]; cbn [bind]; try discriminate.
    intros [= <-]. cbn [d_hdr]. unfold read_hdr. cbn [h_pagesize]. apply rdw_nonneg. exact Hb.
  Qed.
  Lemma psig_items_no_panic : forall items s p, Forall (fun it => all_bytes (si_data it) = true) items -> psig_items H items s <> Panic p.
  Proof.
    induction items as [|it r IH]; intros s p Hb; cbn [psig_items]; [discriminate|].
    inversion Hb as [|? ? Hit Hr]; subst.
    destruct (psig_act (si_type it) =? 2); [cbn [bind]; now apply IH|].
    destruct (psig_act (si_type it) =? 5); [cbn [bind]; now apply IH|].
    destruct (psig_act (si_type it) =? 7); [cbn [bind]; now apply IH|].
    destruct (psig_act (si_type it) =? 102); [cbn [bind]; now apply IH|].
    destruct (psig_act (si_type it) =? 100).
    { destruct (parse_code_directory H (si_data it) (si_type it)) as [d| |q] eqn:Ed; cbn [bind]; try discriminate; [now apply IH|].
      exfalso. revert Ed. apply parse_cd_no_panic. exact Hit. }
    destruct (psig_act (si_type it) =? 101); [|cbn [bind]; now apply IH].
    unfold psig_cms_empty, psig_cms_skip. destruct (zlen (si_data it) <=? 8) eqn:E; [cbn [bind]; now apply IH|].
    rewrite cslice_ok by lia. cbn [bind]. now apply IH.
  Qed.
  Lemma psig_items_dirs : forall items s s', Forall (fun it => all_bytes (si_data it) = true) items -> dirs_ok s ->
    psig_items H items s = Ok s' -> dirs_ok s'.
  Proof.
    induction items as [|it r IH]; intros s s' Hb Hs; cbn [psig_items]; [intros [= <-]; exact Hs|].
    inversion Hb as [|? ? Hit Hr]; subst.
    destruct (psig_act (si_type it) =? 2); [cbn [bind]; apply IH; assumption|].
    destruct (psig_act (si_type it) =? 5); [cbn [bind]; apply IH; assumption|].
    destruct (psig_act (si_type it) =? 7); [cbn [bind]; apply IH; assumption|].
    destruct (psig_act (si_type it) =? 102); [cbn [bind]; apply IH; assumption|].
    destruct (psig_act (si_type it) =? 100).
    { destruct (parse_code_directory H (si_data it) (si_type it)) as [d| |q] eqn:Ed; cbn [bind]; try discriminate.
      apply IH; [assumption|]. unfold dirs_ok in *. cbn [sg_dirs]. apply Forall_app. split; [exact Hs|]. constructor; [|constructor].
      eapply parse_cd_pagesize; eassumption. }
    destruct (psig_act (si_type it) =? 101); [|cbn [bind]; apply IH; assumption].
    destruct (psig_cms_empty _); [cbn [bind]; apply IH; assumption|].
    destruct (cslice _ _ _); cbn [bind]; try discriminate. apply IH; assumption.
  Qed.
  Lemma insert_dir_forall (P : pdir -> Prop) d l : P d -> Forall P l -> Forall P (insert_dir d l).
  Proof. intros Hd. induction 1; cbn [insert_dir]; [constructor; [exact Hd|constructor]|]. destruct (_ <? _); constructor; auto. Qed.
  Lemma sort_dirs_forall (P : pdir -> Prop) l : Forall P l -> Forall P (sort_dirs l).
  Proof. induction 1; cbn [sort_dirs]; [constructor|]. apply insert_dir_forall; assumption. Qed.
  Theorem parse_signature_no_panic blob p : all_bytes blob = true -> parse_signature H blob <> Panic p.
  Proof.
    intros Hb. unfold parse_signature. destruct (parse_super blob) as [[m its]| |q] eqn:Ep; cbn [bind]; try discriminate.
    2:{ exfalso. revert Ep. apply parse_super_no_panic. exact Hb. }
    cbn [fst snd]. destruct (psig_magic_bad m); [discriminate|].
    destruct (psig_items H its _) as [s| |q] eqn:Es; cbn [bind]; try discriminate.
    exfalso. revert Es. apply psig_items_no_panic. eapply parse_super_bytes; eassumption.
  Qed.
  Lemma parse_signature_dirs blob s : all_bytes blob = true -> parse_signature H blob = Ok s -> dirs_ok s.
  Proof.
    intros Hb. unfold parse_signature. destruct (parse_super blob) as [[m its]| |q] eqn:Ep; cbn [bind]; try discriminate.
    cbn [fst snd]. destruct (psig_magic_bad m); [discriminate|].
    destruct (psig_items H its _) as [s0| |q] eqn:Es; cbn [bind]; try discriminate.
    intros [= <-]. unfold dirs_ok. cbn [sg_dirs].
    assert (Hd : dirs_ok s0) by (eapply psig_items_dirs; [eapply parse_super_bytes; eassumption| |exact Es]; unfold dirs_ok; cbn [sg_dirs]; constructor).
    first [exact Hd | apply sort_dirs_forall; exact Hd | destruct psig_sorts_by_itype; [apply sort_dirs_forall; exact Hd|exact Hd]].
  Qed.
  Lemma run_checks_no_panic s vp d : forall checks guards p, run_checks H s vp d checks guards <> Panic p.
  Proof.
    induction checks as [|c cr IH]; intros guards p; cbn [run_checks]; [discriminate|].
    destruct guards as [|g gr]; [discriminate|]. destruct (g _ _); [|apply IH]. destruct (bytes_eqb _ _); [apply IH|discriminate].
  Qed.
  Lemma check_dirs_no_panic s vp : forall dirs computed p, check_dirs H s vp dirs computed <> Panic p.
  Proof.
    induction dirs as [|d r IH]; intros computed p; cbn [check_dirs]; [discriminate|].
    destruct (run_checks H s vp d vfy_checks vfy_check_guards) as [u| |q] eqn:E; cbn [bind]; try discriminate; [apply IH|].
    exfalso. revert E. apply run_checks_no_panic.
  Qed.
  Lemma check_attr_no_panic : forall attr computed p, check_attr attr computed <> Panic p.
  Proof.
    induction attr as [|[h dg] r IH]; intros computed p; cbn [check_attr]; [discriminate|].
    destruct (clookup h computed); [destruct (bytes_eqb _ _); [apply IH|discriminate]|]. destruct (vfy_attr_missing true); [discriminate|apply IH].
  Qed.
  Lemma check_plist_no_panic : forall e a p, check_plist_each e a <> Panic p.
  Proof. induction e as [|x er IH]; intros a p; cbn [check_plist_each]; [discriminate|]. destruct a; [discriminate|]. destruct (bytes_eqb _ _); [apply IH|discriminate]. Qed.
  Theorem cs_verify_no_panic blob vp p : all_bytes blob = true -> cs_verify H cms_verify blob vp <> Panic p.
  Proof.
    intros Hb. unfold cs_verify. destruct (negb vfy_layout_ok); [discriminate|].
    destruct (parse_signature H blob) as [s| |q] eqn:Es; cbn [bind]; try discriminate.
    2:{ exfalso. revert Es. apply parse_signature_no_panic. exact Hb. }
    destruct (check_dirs H s vp (sg_dirs s) []) as [c| |q] eqn:Ec; cbn [bind]; try discriminate.
    2:{ exfalso. revert Ec. apply check_dirs_no_panic. }
    destruct (vfy_no_dirs _); [discriminate|]. destruct (vfy_no_cms _); [discriminate|].
    destruct (cms_verify _ _) as [[attr plist]|]; [|discriminate].
    destruct (match attr with Some a => check_attr a c | None => Ok tt end) as [u| |q] eqn:Ea; cbn [bind]; try discriminate.
    2:{ exfalso. destruct attr; [|discriminate]. revert Ea. apply check_attr_no_panic. }
    destruct plist as [pl|]; cbn [bind]; [|discriminate].
    destruct (vfy_plist_count_bad _ _); cbn [bind]; [discriminate|].
    destruct (check_plist_each pl _) as [u2| |q] eqn:El; cbn [bind]; try discriminate.
    exfalso. revert El. apply check_plist_no_panic.
  Qed.
  Lemma cs_verify_dirs blob vp s : all_bytes blob = true -> cs_verify H cms_verify blob vp = Ok s -> dirs_ok s.
  Proof.
    intros Hb. unfold cs_verify. destruct (negb vfy_layout_ok); [discriminate|].
    destruct (parse_signature H blob) as [s0| |q] eqn:Es; cbn [bind]; try discriminate.
    destruct (check_dirs H s0 vp (sg_dirs s0) []) as [c| |q]; cbn [bind]; try discriminate.
    destruct (vfy_no_dirs _); [discriminate|]. destruct (vfy_no_cms _); [discriminate|].
    destruct (cms_verify _ _) as [[attr plist]|]; [|discriminate].
    destruct (match attr with Some a => check_attr a c | None => Ok tt end) as [u| |q]; cbn [bind]; try discriminate.
    destruct (match plist with Some pl => _ | None => Ok tt end) as [u2| |q]; cbn [bind]; try discriminate.
    intros [= <-]. eapply parse_signature_dirs; eassumption.
  Qed.
  Lemma best_dir_in : forall dirs cur d, best_dir dirs cur = Some d -> In d dirs \/ cur = Some d.
  Proof.
    induction dirs as [|d2 r IH]; intros cur d; cbn [best_dir]; [intros ->; right; reflexivity|].
    intros Hb. apply IH in Hb as [Hi|Hc]; [left; right; exact Hi|]. destruct (vfy_better_dir _ _ _); [injection Hc as ->; left; left; reflexivity|right; exact Hc].
  Qed.
  (* VerifyPages is the generated program vp_prog; ProofsVP.vp_no_panic: no reslice or allocation of it is out of range for ANY page size byte,
     any 64 bit code size (negative values and MinInt64 included), any number of slots, any reader content.  Since relic commit 83978b2 the page
     size field is bounded before the page buffer is allocated *)
  Lemma vp_input_log2 s lim : dirs_ok s -> 0 <= i_log2 (vp_input s lim).
  Proof.
    intros Hd. unfold vp_input. destruct (best_dir (sg_dirs s) None) as [d|] eqn:Eb; cbn [i_log2]; [|lia].
    apply best_dir_in in Eb as [Hi|Hc]; [|discriminate]. unfold dirs_ok in Hd. rewrite Forall_forall in Hd. apply Hd. exact Hi.
  Qed.
  Lemma vp_input_limit s lim : i_alloc_limit (vp_input s lim) = lim.
  Proof. unfold vp_input. destruct (best_dir _ _); reflexivity. Qed.
  Theorem verify_pages_rd_no_panic s n rd p : dirs_ok s -> 0 <= n -> verify_pages_rd H s n rd <> Panic p.
  Proof.
    intros Hd Hn. unfold verify_pages_rd. apply FmtMACHO.ProofsVP.vp_no_panic; [apply vp_input_log2; exact Hd|].
    rewrite vp_input_limit. unfold alloc_limit. lia.
  Qed.
  Theorem verify_pages_no_panic s file p : dirs_ok s -> verify_pages H s file <> Panic p.
  Proof. intros Hd. unfold verify_pages. apply verify_pages_rd_no_panic; [exact Hd|apply zlen_nonneg]. Qed.
End NoPanic.

Theorem verify_then_pages_no_panic H cms_verify blob vp s file p : all_bytes blob = true ->
  cs_verify H cms_verify blob vp = Ok s -> verify_pages H s file <> Panic p.
Proof. intros Hb Hv. apply (verify_pages_no_panic H cms_verify s file p). exact (cs_verify_dirs H cms_verify blob vp s Hb Hv). Qed.
Theorem verify_then_pages_rd_no_panic H cms_verify blob vp s n rd p : all_bytes blob = true -> 0 <= n ->
  cs_verify H cms_verify blob vp = Ok s -> verify_pages_rd H s n rd <> Panic p.
Proof. intros Hb Hn Hv. apply (verify_pages_rd_no_panic H cms_verify s n rd p); [exact (cs_verify_dirs H cms_verify blob vp s Hb Hv)|exact Hn]. Qed.
