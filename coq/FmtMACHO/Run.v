(* FmtMACHO/Run.v — evaluation of the models and the specification readers on harness cases.
   Hash functions are supplied by the harness as a table [(hash id, preimage, digest)] (the OCaml side has no SHA); a preimage
   that is not in the table hashes to a digest of 0xEE bytes, which never equals a real digest. *)
From Relic Require Import Base.Prelude Base.Enc Base.Val FmtMACHO.VpLang Generated.FmtMACHO_gen FmtMACHO.Model FmtMACHO.ModelM.

Definition st_of {A} (r : result A) : Z := match r with Ok _ => 0 | Err e => e | Panic e => 100 + e end.
Definition vopt (o : option bytes) : val := match o with Some b => VL [VZ 1; VB b] | None => VL [VZ 0; VB []] end.
Definition topt (v : val) : option bytes := if vz (vnth 0 v) =? 0 then None else Some (vb (vnth 1 v)).

Definition tbl_hash (tbl : list (Z * bytes * bytes)) (h : Z) (x : bytes) : bytes :=
  match find (fun e => (fst (fst e) =? h) && bytes_eqb (snd (fst e)) x) tbl with
  | Some e => snd e
  | None => repeat 238 (Z.to_nat (go_hash_size h))
  end.
Definition vtbl (v : val) : list (Z * bytes * bytes) := map (fun e => (vz (vnth 0 e), vb (vnth 1 e), vb (vnth 2 e))) (vl v).

Definition vitem (it : sitem) : val := VL [VZ (si_type it); VZ (si_magic it); VB (si_data it)].
Definition titem (v : val) : sitem := mkSI (vz (vnth 0 v)) (vz (vnth 1 v)) (vb (vnth 2 v)).
Definition vsuper (r : result (Z * list sitem)) : val :=
  match r with Ok (m, its) => VL [VZ 0; VZ m; VL (map vitem its)] | _ => VL [VZ (st_of r); VZ 0; VL []] end.
Definition vspec_super (o : option (Z * list sitem)) : val :=
  match o with Some (m, its) => VL [VZ 0; VZ m; VL (map vitem its)] | None => VL [VZ 1; VZ 0; VL []] end.

(* [0 magic items] -> [bytes parse(bytes) spec(bytes)] *)
Definition run_marshal (v : val) : val :=
  let b := marshal_super (vz (vnth 1 v)) (map titem (vl (vnth 2 v))) in
  VL [VB b; vsuper (parse_super b); vspec_super (spec_super b)].
(* [1 blob] -> [parse spec] *)
Definition run_parse_super (v : val) : val := VL [vsuper (parse_super (vb (vnth 1 v))); vspec_super (spec_super (vb (vnth 1 v)))].
(* [9 magic payload] -> item *)
Definition run_new_item (v : val) : val := vitem (new_super_item (vz (vnth 1 v)) (vb (vnth 2 v))).

Definition vhdr (h : cdhdr) : val :=
  VZs [h_magic h; h_length h; h_version h; h_flags h; h_hashoff h; h_identoff h; h_nspecial h; h_ncode h; h_limit h; h_hashsize h; h_hashtype h;
       h_pagesize h; h_scatter h; h_teamoff h; h_limit64 h; h_esbase h; h_eslimit h; h_esflags h].
Definition vview (o : option cdview) : val :=
  match o with
  | None => VL [VZ 1]
  | Some w => VL [VZ 0; VB (v_ident w); vopt (v_team w); VZ (v_flags w); VZ (v_version w); VZ (v_limit w); VZ (v_page_log2 w); VZ (v_hash_type w);
                  VZ (v_hash_size w); VL (map VB (v_specials w)); VL (map VB (v_codes w));
                  match v_exec w with Some (a, b, c) => VL [VZ 1; VZ a; VZ b; VZ c] | None => VL [VZ 0] end]
  end.
Definition tcp (v : val) : cdparams :=
  mkCP (vz (vnth 0 v)) (vb (vnth 1 v)) (vb (vnth 2 v)) (vz (vnth 3 v)) (vz (vnth 4 v)) (vz (vnth 5 v)) (map topt (vl (vnth 6 v)))
       (vb (vnth 7 v)) (vz (vnth 8 v)) (vz (vnth 9 v)) (vz (vnth 10 v)) (vbool (vnth 11 v)).
(* [2 cdparams table] -> [status raw view] *)
Definition run_new_cd (v : val) : val :=
  let r := new_code_directory (tbl_hash (vtbl (vnth 2 v))) (tcp (vnth 1 v)) in
  match r with
  | Ok (raw, _) => VL [VZ 0; VB raw; vview (spec_cd_read raw)]
  | _ => VL [VZ (st_of r); VB []; vview None]
  end.
Definition vdir (d : pdir) : val :=
  VL [vhdr (d_hdr d); VB (d_ident d); VB (d_team d); VZ (d_hash d); VZ (d_itype d); VL (map vopt (d_codes d));
      VL (map (fun kv => VL [VZ (fst kv); vopt (snd kv)]) (d_specials d))].
(* [3 blob itype] -> [status dir spec-view] *)
Definition run_parse_cd (v : val) : val :=
  let r := parse_code_directory (fun _ _ => []) (vb (vnth 1 v)) (vz (vnth 2 v)) in
  VL [VZ (st_of r); match r with Ok d => vdir d | _ => VL [] end; vview (spec_cd_read (vb (vnth 1 v)))].

Definition tsp (v : val) : sparams :=
  mkSP (vz (vnth 0 v)) (topt (vnth 1 v)) (topt (vnth 2 v)) (vz (vnth 3 v)) (topt (vnth 4 v)) (topt (vnth 5 v)) (topt (vnth 6 v)) (topt (vnth 7 v))
       (vb (vnth 8 v)) (vb (vnth 9 v)) (vz (vnth 10 v)) (vz (vnth 11 v)) (vz (vnth 12 v)).
(* [4 hfs sparams stream table cms] -> [status blob content attr plist] *)
Definition run_sign (v : val) : val :=
  let H := tbl_hash (vtbl (vnth 4 v)) in
  let r := sign_plan H (map vz (vl (vnth 1 v))) (tsp (vnth 2 v)) (vb (vnth 3 v)) in
  match r with
  | Ok pl => VL [VZ 0; VB (sign_finish pl (vb (vnth 5 v))); VB (pl_content pl);
                 VL (map (fun a => VL [VZ (fst a); VB (snd a)]) (pl_attr pl)); VL (map VB (pl_plist pl))]
  | _ => VL [VZ (st_of r); VB []; VB []; VL []; VL []]
  end.

(* the PKCS#7 oracle of a case: [accepts message_digest_alg message_digest attr plist]: the CMS verifies a content whose digest is
   message_digest; attr / plist = [present entries] *)
Definition cms_oracle (H : Z -> bytes -> bytes) (o : val) (cms content : bytes) : option (option (list (Z * bytes)) * option (list bytes)) :=
  if vbool (vnth 0 o) && bytes_eqb (H (vz (vnth 1 o)) content) (vb (vnth 2 o)) then
    Some (if vbool (vnth 0 (vnth 3 o)) then Some (map (fun e => (vz (vnth 0 e), vb (vnth 1 e))) (vl (vnth 1 (vnth 3 o)))) else None,
          if vbool (vnth 0 (vnth 4 o)) then Some (map vb (vl (vnth 1 (vnth 4 o)))) else None)
  else None.
Definition tvp (v : val) : vparams := mkVP (topt (vnth 0 v)) (topt (vnth 1 v)) (topt (vnth 2 v)).
(* [5 blob vparams table oracle file] -> [verify status, pages status, code size, n dirs, best dir itype] *)
Definition run_verify (v : val) : val :=
  let H := tbl_hash (vtbl (vnth 3 v)) in
  let r := cs_verify H (cms_oracle H (vnth 4 v)) (vb (vnth 1 v)) (tvp (vnth 2 v)) in
  match r with
  | Ok s => VL [VZ 0; VZ (st_of (verify_pages H s (vb (vnth 5 v)))); VZ (code_size s); VZ (zlen (sg_dirs s));
                VZ (match best_dir (sg_dirs s) None with Some d => d_itype d | None => -1 end)]
  | _ => VL [VZ (st_of r); VZ (-1); VZ 0; VZ 0; VZ (-1)]
  end.
(* [6 blob] -> parse_signature summary [status has_req has_ent has_der has_ticket n_unknown dir-itypes has_cms] *)
Definition run_parse_sig (v : val) : val :=
  let r := parse_signature (fun _ _ => []) (vb (vnth 1 v)) in
  match r with
  | Ok s => VL [VZ 0; vopt (sg_req s); vopt (sg_ent s); vopt (sg_der s); vopt (sg_ticket s); VZ (zlen (sg_unknown s));
                VL (map (fun d => VZ (d_itype d)) (sg_dirs s)); vopt (sg_cms s)]
  | _ => VL [VZ (st_of r)]
  end.

Definition vmarkers (m : markers) : val :=
  VZs [if m_le m then 1 else 0; m_magic m; m_ncmd m; m_cmdsz m; m_sig_start m; m_sig_len m; m_load_cs m; m_le_pos m; m_le_addr m; m_le_memsz m;
       m_le_off m; m_le_filesz m; m_next_lc m; m_first_sh m; m_code_size m].
Definition vimage (f : bytes) : val :=
  match spec_image f with
  | None => VL [VZ 1]
  | Some im => VL [VZ 0; VZ (zlen (im_cmds im)); match spec_codesig im with Some (a, b) => VL [VZ 1; VZ a; VZ b] | None => VL [VZ 0] end; VZ (spec_code_end im)]
  end.
Definition vpayload (f : bytes) : val :=
  match spec_payload f with Some (a, b, c) => VL [VZ 0; VB a; VL (map VB b); VB c] | None => VL [VZ 1] end.
(* [7 file] -> [status markers image extract payload] *)
Definition run_scan (v : val) : val :=
  let f := vb (vnth 1 v) in
  let r := scan_file f in
  let e := macho_extract_blob f in
  VL [VZ (st_of r); match r with Ok m => vmarkers m | _ => VL [] end; vimage f;
      VL [VZ (st_of e); match e with Ok o => vopt o | _ => vopt None end]; vpayload f].
(* [8 file hash_size ent_len req_len sig_size_override] -> the plan: [status new_hdr sig_buf_len sig_start padding stream old_sig estimate patches fresh_ok] *)
Definition run_plan (v : val) : val :=
  let f := vb (vnth 1 v) in
  let r := macho_plan f (vz (vnth 2 v)) (vz (vnth 3 v)) (vz (vnth 4 v)) in
  match r with
  | Ok mp => let p := mp_patched mp in
             VL [VZ 0; VB (p_hdr p); VZ (p_sig_buf_len p); VZ (p_sig_start p); VZ (p_padding p); VB (mp_stream mp); vopt (mp_old_sig mp);
                 VZ (estimate (m_code_size (mp_markers mp)) (vz (vnth 2 v)) (vz (vnth 3 v)) (vz (vnth 4 v)));
                 VL (map (fun r => VL [VZ (fst r); VZ (snd r)]) (p_hdr_ranges p)); of_bool (fresh_ok (mp_markers mp) f)]
  | _ => VL [VZ (st_of r)]
  end.
(* [10 file sparams cms table req_given_len] -> [status signed-file hashin extract(signed) payload(signed) payload(file)] *)
Definition run_embed (v : val) : val :=
  let f := vb (vnth 1 v) in
  let H := tbl_hash (vtbl (vnth 4 v)) in
  let p := tsp (vnth 2 v) in
  let hi := macho_hashin H (vz (vnth 5 v)) p f in
  let r := macho_embed H (vz (vnth 5 v)) p f (vb (vnth 3 v)) in
  match r with
  | Ok g => let e := macho_extract_blob g in
            VL [VZ 0; VB g; VL [VZ (st_of hi); VB (match hi with Ok b => b | _ => [] end)];
                VL [VZ (st_of e); match e with Ok o => vopt o | _ => vopt None end]; vpayload g; vpayload f]
  | _ => VL [VZ (st_of r); VB []; VL [VZ (st_of hi); VB []]; VL [VZ (-1); vopt None]; VL [VZ 1]; vpayload f]
  end.
(* [11 blob vparams table oracle rd input_len] -> like run_verify, but VerifyPages runs on the explicit reader content rd (dmg: the section up to the
   end of the property list; harness cases with a reader that is longer / shorter than the code size) *)
Definition run_verify_rd (v : val) : val :=
  let H := tbl_hash (vtbl (vnth 3 v)) in
  let r := cs_verify H (cms_oracle H (vnth 4 v)) (vb (vnth 1 v)) (tvp (vnth 2 v)) in
  match r with
  | Ok s => VL [VZ 0; VZ (st_of (verify_pages_rd H s (vz (vnth 6 v)) (vb (vnth 5 v)))); VZ (code_size s); VZ (zlen (sg_dirs s));
                VZ (match best_dir (sg_dirs s) None with Some d => d_itype d | None => -1 end)]
  | _ => VL [VZ (st_of r); VZ (-1); VZ 0; VZ 0; VZ (-1)]
  end.
(* [12 none log2 slots hfun limit64 limit32 rd table input_len] -> [status of the generated VerifyPages program, CodeSize()] on explicit header values:
   the generated CodeSize (cs_code_size_of) feeds the generated program (vp_prog) *)
Definition run_vp (v : val) : val :=
  let H := tbl_hash (vtbl (vnth 8 v)) in
  let cs := cs_code_size_of (vbool (vnth 1 v)) (vz (vnth 5 v)) (vz (vnth 6 v)) in
  let c := mkVin (vbool (vnth 1 v)) (vz (vnth 2 v)) (map vb (vl (vnth 3 v))) (vz (vnth 4 v)) cs (alloc_limit (vz (vnth 9 v))) in
  VL [VZ (st_of (vp_exec H c vp_prog (vb (vnth 7 v)))); VZ cs].

Definition run (v : val) : val :=
  let k := vz (vnth 0 v) in
  if k =? 0 then run_marshal v
  else if k =? 1 then run_parse_super v
  else if k =? 2 then run_new_cd v
  else if k =? 3 then run_parse_cd v
  else if k =? 4 then run_sign v
  else if k =? 5 then run_verify v
  else if k =? 6 then run_parse_sig v
  else if k =? 7 then run_scan v
  else if k =? 8 then run_plan v
  else if k =? 9 then run_new_item v
  else if k =? 11 then run_verify_rd v
  else if k =? 12 then run_vp v
  else run_embed v.
