(* FmtMACHO/Model.v — Apple code signatures as relic writes and reads them.
   Part 1 (this file): lib/fruit/csblob — superblob / blob index (marshalSuperBlob, newSuperItem, parseSuper), CodeDirectory
   (newCodeDirectory, parseCodeDirectory, cstring, hashFunc/hashType), the assembly of a signature (Sign), parseSignature, Verify,
   bestDir / CodeSize / VerifyPages (the latter two are not hand-written: CodeSize is the generated cs_code_size_of, VerifyPages the
   generated program vp_prog run by the interpreter of FmtMACHO/VpLang.v).  Part 2 (FmtMACHO/ModelM.v): lib/fruit/machos — header scan, size estimate, patches.
   Every constant, comparison, offset expression and table is a definition of Generated/FmtMACHO_gen.v (translated from the Go
   source on every run).  Where the Go code writes to fixed POSITIONS (PutUint32(buf[4:]...), ints[3+2*i] = ..., struct field
   order) the model is written as a concatenation and is guarded by `*_layout_ok`, a boolean computed from the generated
   positions: if the source moves a field the guard computes to false, the model returns an empty value and no theorem about
   it can be re-proved.  Parsers use CHECKED primitives (Panic exactly where Go panics).
   The SPEC side (names starting with spec_) is written from Apple's cs_blobs.h / CSCommon.h layout and shares nothing with the code above.
   Page hashing is the model of unit C09 (C09.Model.hashpages = chunks 4096, theorem codepages_split_indep). *)
From Relic Require Import Base.Prelude Base.Enc FmtMACHO.VpLang Generated.FmtMACHO_gen.
From Relic Require C09.Model.

(* ------------------------------------------------------------------ classes *)
Definition P_SLICE := 1.   (* slice bounds / index out of range *)
Definition P_MAKE := 2.    (* makeslice: len out of range *)
Definition P_ALLOC := 4.   (* single allocation above alloc_limit: sized by an unchecked header field *)
Definition P_HANG := 5.    (* loop fuel exhausted *)
Definition E_SHORT := 1.     (* errShort / io.ErrUnexpectedEOF *)
Definition E_INVALID := 2.   (* invalid length in signature blob *)
Definition E_MAGIC := 3.     (* expected embedded signature *)
Definition E_SCATTER := 4.   (* scatterOffset is not supported *)
Definition E_HASH := 5.      (* unknown hash type / size mismatch / unsupported hash *)
Definition E_DIGEST := 6.    (* digest mismatch (special slot, page, cd hash) *)
Definition E_NODIR := 7.     (* code directory not found *)
Definition E_NOCMS := 8.     (* signature wrapper not found *)
Definition E_CMS := 9.       (* PKCS#7 parse / verification failed *)
Definition E_PAGES := 10.    (* page count / code size inconsistencies of VerifyPages *)
Definition E_REQ := 11.      (* requirements blob must be a binary requirement or requirement set *)
Definition E_MISSING := 12.  (* missing hash with algorithm *)
Definition E_COUNT := 13.    (* expected n hashes but got m *)

Definition alloc_limit (n : Z) : Z := 64 * n + 1048576.
Definition alloc (input_len n : Z) : result unit :=
  if n <? 0 then Panic P_MAKE else if alloc_limit input_len <? n then Panic P_ALLOC else Ok tt.
Definition cslice (a b : Z) (l : bytes) : result bytes :=
  if (a <? 0) || (b <? a) || (zlen l <? b) then Panic P_SLICE else Ok (zslice a b l).
Definition rd32 (off : Z) (l : bytes) : Z := be_dec (zslice off (off + 4) l).
Definition rdw (off w : Z) (l : bytes) : Z := be_dec (zslice off (off + w) l).
(* binary.BigEndian.Uint32(l[off:]) *)
Definition crd32 (off : Z) (l : bytes) : result Z :=
  if (off <? 0) || (zlen l <? off + 4) then Panic P_SLICE else Ok (rd32 off l).
Definition zeros (n : Z) : bytes := repeat 0 (Z.to_nat n).
(* ztake / zdrop with the count clipped to the length first: the same functions (lemmas ztk_eq, zdp_eq), but an attacker-chosen 64 bit
   count is never converted to a unary number when the extracted model runs *)
Definition ztk {A} (n : Z) (l : list A) : list A := ztake (Z.min n (zlen l)) l.
Definition zdp {A} (n : Z) (l : list A) : list A := zdrop (Z.min n (zlen l)) l.
Definition be32 (n : Z) : bytes := be_enc 4 n.
Fixpoint lookup (k : Z) (t : list (Z * Z)) : option Z :=
  match t with [] => None | (a, b) :: r => if a =? k then Some b else lookup k r end.
Definition s64 (x : Z) : Z := if x >=? 9223372036854775808 then x - 18446744073709551616 else x.
Definition all_zero (l : bytes) : bool := forallb (fun c => negb (pcd_slot_byte_nonzero c)) l.

(* ================================================================== 1. superblob *)
Record sitem := mkSI { si_type : Z; si_magic : Z; si_data : bytes }.

(* ---- newSuperItem *)
Definition si_layout_ok : bool := (si_magic_at =? 0) && (si_len_at =? 4) && (si_payload_at =? 8).
Definition new_super_item (magic : Z) (payload : bytes) : sitem :=
  let data := if si_layout_ok
              then be32 magic ++ be32 (si_len_val (zlen payload)) ++ payload ++ zeros (si_total (zlen payload) - 8 - zlen payload)
              else [] in
  mkSI (match lookup magic cs_itypes with Some t => t | None => 0 end) magic data.

(* ---- marshalSuperBlob *)
Definition sbw_layout_ok : bool :=
  (sbw_pos_magic =? 0) && (sbw_pos_length =? 1) && (sbw_pos_count =? 2) &&
  (sbw_pos_itype 0 =? 3) && (sbw_pos_ioff 0 =? 4) && (sbw_pos_itype 1 =? 5) && (sbw_pos_ioff 1 =? 6) &&
  (sbw_pos_itype 7 =? 17) && (sbw_pos_ioff 7 =? 18) && (sbw_nints 0 =? 3) && (sbw_nints 1 =? 5) && (sbw_nints 9 =? 21) &&
  list_eqb (list_eqb Z.eqb) sbw_writes [[0; 1; 3; 99; 0]; [1; 2; 0; 0; 0]].
(* index entries and the running `length` (uint32) *)
Fixpoint sb_index (items : list sitem) (len : Z) : bytes * Z :=
  match items with
  | [] => ([], len)
  | it :: r => let '(ix, fin) := sb_index r (mm_wrap32 (sbw_len_step len (zlen (si_data it)))) in
               (be32 (si_type it) ++ be32 len ++ ix, fin)
  end.
Definition marshal_super (magic : Z) (items : list sitem) : bytes :=
  if negb sbw_layout_ok then [] else
  let n := zlen items in
  let '(ix, total) := sb_index items (sbw_len0 (sbw_nints n)) in
  be32 magic ++ be32 total ++ be32 (sbw_count_val n) ++ ix ++ concat (map si_data items).

(* ---- parseSuper (checked) *)
Fixpoint ps_items (fuel : nat) (i count : Z) (indexes blob : bytes) (data_off : Z) : result (list sitem) :=
  match fuel with
  | O => Panic P_HANG
  | S k =>
      if negb (sb_loop_cond i count) then Ok [] else
      itype <- crd32 (sb_rd_itype_at i) indexes ;;
      off0 <- crd32 (sb_rd_ioff_at i) indexes ;;
      let offset := sb_rel_off off0 data_off in
      if sb_off_bad offset (zlen blob) then Err E_SHORT else
      length <- crd32 (sb_rd_ilen_at offset) blob ;;
      if sb_item_bad length offset (zlen blob) then Err E_SHORT else
      magic <- crd32 (sb_rd_imagic_at offset) blob ;;
      data <- cslice (sb_item_lo offset length) (sb_item_hi offset length) blob ;;
      r <- ps_items k (i + 1) count indexes blob data_off ;;
      Ok (mkSI itype magic data :: r)
  end.
Definition parse_super (blob : bytes) : result (Z * list sitem) :=
  if sb_short (zlen blob) then Err E_SHORT else
  magic <- crd32 sb_rd_magic_at blob ;;
  length <- crd32 sb_rd_length_at blob ;;
  count <- crd32 sb_rd_count_at blob ;;
  if sb_len_bad length (zlen blob) then Err E_INVALID else
  b1 <- cslice sb_hdr_skip (zlen blob) blob ;;
  if sb_index_short (zlen b1) count then Err E_SHORT else
  indexes <- cslice 0 (sb_index_bytes count) b1 ;;
  b2 <- cslice (sb_index_bytes count) (zlen b1) b1 ;;
  let data_off := sb_data_off (zlen blob) (zlen b2) in
  items <- ps_items (S (Z.to_nat count)) 0 count indexes b2 data_off ;;
  Ok (magic, items).

(* ---- SPEC (cs_blobs.h): CS_SuperBlob { uint32 magic, length, count; CS_BlobIndex { uint32 type, offset } index[count] },
   offsets are relative to the START of the superblob; every blob begins with CS_GenericBlob { uint32 magic, length }, big endian *)
Definition spec_blob_at (sb : bytes) (off : Z) : option (Z * bytes) :=
  if (off <? 0) || (zlen sb <? off + 8) then None else
  let len := rd32 (off + 4) sb in
  if (len <? 8) || (zlen sb <? off + len) then None else Some (rd32 off sb, zslice off (off + len) sb).
Fixpoint spec_index (n : nat) (i : Z) (sb : bytes) : option (list sitem) :=
  match n with
  | O => Some []
  | S k => match spec_blob_at sb (rd32 (12 + 8 * i + 4) sb), spec_index k (i + 1) sb with
           | Some (m, d), Some r => Some (mkSI (rd32 (12 + 8 * i) sb) m d :: r)
           | _, _ => None
           end
  end.
Definition spec_super (sb : bytes) : option (Z * list sitem) :=
  if zlen sb <? 12 then None else
  let length := rd32 4 sb in
  let count := rd32 8 sb in
  if (zlen sb <? length) || (length <? 12 + 8 * count) then None else
  match spec_index (Z.to_nat count) 0 sb with Some its => Some (rd32 0 sb, its) | None => None end.

(* what a well-formed item list is: every data string is a blob whose own header states its magic and length *)
Definition item_wf (it : sitem) : Prop :=
  8 <= zlen (si_data it) /\ rd32 4 (si_data it) = zlen (si_data it) /\ rd32 0 (si_data it) = si_magic it /\
  0 <= si_type it < 4294967296 /\ all_bytes (si_data it) = true.
Definition items_total (items : list sitem) : Z := 12 + 8 * zlen items + zlen (concat (map si_data items)).

(* ================================================================== 2. CodeDirectory *)
(* Go's crypto.Hash identifiers and digest sizes (standard library constants) *)
Definition H_SHA1 := 3. Definition H_SHA256 := 5. Definition H_SHA384 := 6.
Definition go_hash_size (h : Z) : Z :=
  if h =? 3 then 20 else if h =? 4 then 28 else if h =? 5 then 32 else if h =? 6 then 48 else if h =? 7 then 64 else if h =? 2 then 16 else 0.

Record cdparams := mkCP {
  cp_flags : Z; cp_ident : bytes; cp_team : bytes; cp_es_base : Z; cp_es_limit : Z; cp_es_flags : Z;
  cp_specials : list (option bytes);     (* params.Specials, in order: slot -n first, slot -1 last; None = nil *)
  cp_code_slots : bytes; cp_ncode : Z; cp_hash : Z; cp_code_limit : Z; cp_single : bool }.

Record cdhdr := mkHdr {
  h_magic : Z; h_length : Z; h_version : Z; h_flags : Z; h_hashoff : Z; h_identoff : Z; h_nspecial : Z; h_ncode : Z; h_limit : Z;
  h_hashsize : Z; h_hashtype : Z; h_pagesize : Z; h_scatter : Z; h_teamoff : Z; h_limit64 : Z; h_esbase : Z; h_eslimit : Z; h_esflags : Z }.

(* the struct is written field by field (binary.Write): the generated offsets must be those of CS_CodeDirectory *)
Definition cdh_layout_ok : bool :=
  (cdh_off_Magic =? 0) && (cdh_off_Length =? 4) && (cdh_off_Version =? 8) && (cdh_off_Flags =? 12) && (cdh_off_HashOffset =? 16) &&
  (cdh_off_IdentOffset =? 20) && (cdh_off_SpecialSlotCount =? 24) && (cdh_off_CodeSlotCount =? 28) && (cdh_off_CodeLimit =? 32) &&
  (cdh_off_HashSize =? 36) && (cdh_off_HashType =? 37) && (cdh_off_pad1 =? 38) && (cdh_off_PageSizeLog2 =? 39) && (cdh_off_pad2 =? 40) &&
  (cdh_off_ScatterOffset =? 44) && (cdh_off_TeamOffset =? 48) && (cdh_off_pad3 =? 52) && (cdh_off_CodeLimit64 =? 56) &&
  (cdh_off_ExecSegmentBase =? 64) && (cdh_off_ExecSegmentLimit =? 72) && (cdh_off_ExecSegmentFlags =? 80) && (cdh_size =? 88) &&
  list_eqb Z.eqb cdh_widths [4; 4; 4; 4; 4; 4; 4; 4; 4; 1; 1; 1; 1; 4; 4; 4; 4; 8; 8; 8; 8].
Definition hdr_bytes (h : cdhdr) : bytes :=
  be32 (h_magic h) ++ be32 (h_length h) ++ be32 (h_version h) ++ be32 (h_flags h) ++ be32 (h_hashoff h) ++ be32 (h_identoff h) ++
  be32 (h_nspecial h) ++ be32 (h_ncode h) ++ be32 (h_limit h) ++ [wrap8 (h_hashsize h); wrap8 (h_hashtype h); 0; wrap8 (h_pagesize h)] ++
  be32 0 ++ be32 (h_scatter h) ++ be32 (h_teamoff h) ++ be32 0 ++ be_enc 8 (h_limit64 h) ++ be_enc 8 (h_esbase h) ++
  be_enc 8 (h_eslimit h) ++ be_enc 8 (h_esflags h).

Definition cd_writes_ok : bool :=
  list_eqb (list_eqb Z.eqb) cd_writes [[0; 9; 8; 99; 0]; [1; 1; 0; 0; 0]; [2; 0; 0; 0; 0]; [1; 2; 0; 0; 1]; [2; 0; 0; 0; 1]; [3; 3; 0; 0; 0]; [3; 4; 0; 0; 0]] &&
  list_eqb (list_eqb Z.eqb) cd_hash_calls [[0; 0; 0; 0; 0]; [1; 1; 0; 0; 0]; [2; 3; 0; 0; 0]; [0; 0; 0; 0; 0]; [1; 2; 0; 0; 0]; [2; 4; 0; 0; 0]] &&
  list_eqb Z.eqb cd_limit_targets_then [64] && list_eqb Z.eqb cd_limit_targets_else [32] && cd_special_hashed && cd_special_zero_filled.

Section WithHash.
  Variable H : Z -> bytes -> bytes.      (* crypto.Hash id -> message -> digest *)

  Definition special_slot_bytes (h : Z) (s : option bytes) : bytes :=
    match s with
    | Some b => if cd_special_present true then H h b else zeros (go_hash_size h)
    | None => if cd_special_present false then H h [] else zeros (go_hash_size h)
    end.
  Definition cd_header (p : cdparams) (ht : Z) : cdhdr :=
    let h := cp_hash p in
    let hs := go_hash_size h in
    let nsp := cd_init_nspecial (zlen (cp_specials p)) in
    let hs8 := cd_init_hashsize hs in
    let special_bytes := zlen (cp_specials p) * hs in
    let off0 := cd_off0 in
    let off1 := cd_off_after_ident off0 (zlen (cp_ident p)) in
    let has_team := cd_has_team (cp_team p) in
    let off2 := if has_team then cd_off_after_team off1 (zlen (cp_team p)) else off1 in
    let off3 := cd_off_after_slots off2 special_bytes (zlen (cp_code_slots p)) in
    let is64 := cd_limit_is64 (cp_code_limit p) in
    mkHdr cd_init_magic (cd_length off3)
          (if cd_has_execseg (cd_init_es_base (cp_es_base p)) (cd_init_es_limit (cp_es_limit p)) (cd_init_es_flags (cp_es_flags p))
           then cd_execseg_version else cd_init_version)
          (cd_init_flags (cp_flags p)) (mm_wrap32 (cd_hash_off off2 nsp (mm_wrap32 hs8))) (cd_ident_off off0) nsp (cd_init_ncode (cp_ncode p))
          (if is64 then 0 else cd_limit32_val (cp_code_limit p)) hs8 ht
          (if cd_is_single_page (cp_single p) then cd_single_pagesize else cd_init_pagesize) 0
          (if has_team then cd_team_off off1 else 0)
          (if is64 then cd_limit64_val (cp_code_limit p) else 0)
          (cd_init_es_base (cp_es_base p)) (cd_init_es_limit (cp_es_limit p)) (cd_init_es_flags (cp_es_flags p)).
  Definition cd_body (p : cdparams) : bytes :=
    cp_ident p ++ [0] ++ (if cd_has_team (cp_team p) then cp_team p ++ [0] else []) ++
    concat (map (special_slot_bytes (cp_hash p)) (cp_specials p)) ++ cp_code_slots p.
  (* newCodeDirectory: (Raw, Digest) *)
  Definition new_code_directory (p : cdparams) : result (bytes * bytes) :=
    match lookup (cp_hash p) cs_hash_type_of with
    | None => Err E_HASH
    | Some ht =>
        if negb (cdh_layout_ok && cd_writes_ok) then Ok ([], []) else
        let raw := hdr_bytes (cd_header p ht) ++ cd_body p in
        Ok (raw, H (cp_hash p) raw)
    end.

  (* ---- SPEC reader, from cs_blobs.h:
     typedef struct __CodeDirectory { uint32_t magic /*0*/, length /*4*/, version /*8*/, flags /*12*/, hashOffset /*16*/, identOffset /*20*/,
       nSpecialSlots /*24*/, nCodeSlots /*28*/, codeLimit /*32*/; uint8_t hashSize /*36*/, hashType /*37*/, platform /*38*/, pageSize /*39*/;
       uint32_t spare2 /*40*/; /* 0x20100 */ uint32_t scatterOffset /*44*/; /* 0x20200 */ uint32_t teamOffset /*48*/;
       /* 0x20300 */ uint32_t spare3 /*52*/; uint64_t codeLimit64 /*56*/; /* 0x20400 */ uint64_t execSegBase /*64*/, execSegLimit /*72*/, execSegFlags /*80*/ }
     hash slot i (i = -nSpecialSlots .. nCodeSlots-1) is the hashSize bytes at hashOffset + i*hashSize; identifier and team identifier
     are NUL terminated strings at identOffset / teamOffset; the signed code is the first (version >= 0x20300 && codeLimit64 ?
     codeLimit64 : codeLimit) bytes, in pages of 2^pageSize bytes *)
  Record cdview := mkView {
    v_ident : bytes; v_team : option bytes; v_flags : Z; v_version : Z; v_limit : Z; v_page_log2 : Z; v_hash_type : Z; v_hash_size : Z;
    v_specials : list bytes;   (* slot -1 first *)
    v_codes : list bytes; v_exec : option (Z * Z * Z) }.
  Fixpoint spec_cstr (l : bytes) : option bytes :=
    match l with [] => None | c :: r => if c =? 0 then Some [] else match spec_cstr r with Some s => Some (c :: s) | None => None end end.
  Fixpoint spec_slots (n : nat) (base step hs : Z) (l : bytes) : list bytes :=
    match n with O => [] | S k => zslice base (base + hs) l :: spec_slots k (base + step) step hs l end.
  Definition spec_cd_read (cd : bytes) : option cdview :=
    if zlen cd <? 44 then None else
    if negb (rd32 0 cd =? 4208856066) then None else                     (* CSMAGIC_CODEDIRECTORY 0xfade0c02 *)
    let version := rd32 8 cd in
    let need := if version <? 131328 then 44 else if version <? 131584 then 48 else if version <? 131840 then 52
                else if version <? 132096 then 64 else 88 in
    if (zlen cd <? need) || negb (rd32 4 cd =? zlen cd) then None else
    let hashoff := rd32 16 cd in let nsp := rd32 24 cd in let nc := rd32 28 cd in
    let hs := rdw 36 1 cd in
    if (hs =? 0) || (hashoff <? nsp * hs) || (zlen cd <? hashoff + nc * hs) then None else
    match spec_cstr (zdp (rd32 20 cd) cd) with
    | None => None
    | Some ident =>
        let team := if (131584 <=? version) && negb (rd32 48 cd =? 0) then spec_cstr (zdp (rd32 48 cd) cd) else None in
        let l64 := if 131840 <=? version then rdw 56 8 cd else 0 in
        Some (mkView ident team (rd32 12 cd) version (if l64 =? 0 then rd32 32 cd else l64) (rdw 39 1 cd) (rdw 37 1 cd) hs
                     (spec_slots (Z.to_nat nsp) (hashoff - hs) (- hs) hs cd) (spec_slots (Z.to_nat nc) hashoff hs hs cd)
                     (if 132096 <=? version then Some (rdw 64 8 cd, rdw 72 8 cd, rdw 80 8 cd) else None))
    end.

  (* ---- parseCodeDirectory (checked) *)
  Record pdir := mkDir {
    d_hdr : cdhdr; d_ident : bytes; d_team : bytes; d_hash : Z; d_raw : bytes; d_cdhash : bytes; d_itype : Z;
    d_codes : list (option bytes); d_specials : list (Z * option bytes) (* field code (1 info 2 req 3 res 5 ent 6 rep 7 der) -> value *) }.

  Fixpoint index0 (l : bytes) (k : Z) : Z :=
    match l with [] => -1 | b :: r => if b =? 0 then k else index0 r (k + 1) end.
  Definition cstring (blob : bytes) (i : Z) : result bytes :=
    if cstr_off_bad i (zlen blob) then Err E_SHORT else
    b' <- cslice i (zlen blob) blob ;;
    let j := index0 b' 0 in
    if cstr_no_nul j then Err E_SHORT else cslice 0 j b'.
  (* a tagless switch with fallthrough: the targets executed *)
  Fixpoint sw_run (conds : list bool) (acts : list (list Z)) (falls : list bool) (active : bool) : list Z :=
    match conds, acts, falls with
    | c :: cs, a :: as_, f :: fs => if active || c then a ++ (if f then sw_run cs as_ fs true else []) else sw_run cs as_ fs false
    | _, _, _ => []
    end.
  Definition ver_zeroed (version : Z) : list Z :=
    if negb (pcd_ver_n =? 4) then [99] else
    sw_run [pcd_ver_cond_0 version; pcd_ver_cond_1 version; pcd_ver_cond_2 version; pcd_ver_cond_3 version] pcd_ver_acts pcd_ver_fall false.
  Definition zf (zs : list Z) (code v : Z) : Z := if existsb (Z.eqb code) zs then 0 else v.
  Definition read_hdr (blob : bytes) : cdhdr :=
    let f := fun off w => rdw off w blob in
    let version := f cdh_off_Version cdh_w_Version in
    let zs := ver_zeroed version in
    mkHdr (f cdh_off_Magic cdh_w_Magic) (f cdh_off_Length cdh_w_Length) version (f cdh_off_Flags cdh_w_Flags)
          (f cdh_off_HashOffset cdh_w_HashOffset) (f cdh_off_IdentOffset cdh_w_IdentOffset) (f cdh_off_SpecialSlotCount cdh_w_SpecialSlotCount)
          (f cdh_off_CodeSlotCount cdh_w_CodeSlotCount) (f cdh_off_CodeLimit cdh_w_CodeLimit) (f cdh_off_HashSize cdh_w_HashSize)
          (f cdh_off_HashType cdh_w_HashType) (f cdh_off_PageSizeLog2 cdh_w_PageSizeLog2)
          (zf zs 1 (f cdh_off_ScatterOffset cdh_w_ScatterOffset)) (zf zs 2 (f cdh_off_TeamOffset cdh_w_TeamOffset))
          (zf zs 3 (s64 (f cdh_off_CodeLimit64 cdh_w_CodeLimit64))) (zf zs 4 (s64 (f cdh_off_ExecSegmentBase cdh_w_ExecSegmentBase)))
          (zf zs 6 (s64 (f cdh_off_ExecSegmentLimit cdh_w_ExecSegmentLimit))) (zf zs 5 (s64 (f cdh_off_ExecSegmentFlags cdh_w_ExecSegmentFlags))).
  Definition hash_func (htype hlen : Z) : result Z :=
    let r := match find (fun e => fst e =? htype) cs_hash_func_of with Some e => snd e | None => (0, 0) end in
    if cs_hash_unknown (fst r) then Err E_HASH
    else if cs_hash_size_bad (go_hash_size (fst r)) hlen then Err E_HASH else Ok (fst r).
  Definition slot (blob : bytes) (hash_base hash_len i : Z) : result (option bytes) :=
    hsh <- cslice (pcd_slot_lo hash_base hash_len i) (pcd_slot_hi hash_base hash_len i) blob ;;
    Ok (if all_zero hsh then None else Some hsh).
  Fixpoint code_loop (fuel : nat) (blob : bytes) (hb hl i n : Z) : result (list (option bytes)) :=
    match fuel with
    | O => Panic P_HANG
    | S k => if negb (pcd_code_loop i n) then Ok [] else
             v <- slot blob hb hl (pcd_code_arg i) ;; r <- code_loop k blob hb hl (i + 1) n ;; Ok (v :: r)
    end.
  Definition special_field (i : Z) : option Z :=
    match find (fun kv => existsb (Z.eqb i) (fst kv)) (combine pcd_field_keys pcd_field_acts) with
    | Some (_, c :: _) => Some c
    | _ => None
    end.
  Fixpoint special_loop (fuel : nat) (blob : bytes) (hb hl i n : Z) : result (list (Z * option bytes)) :=
    match fuel with
    | O => Panic P_HANG
    | S k => if negb (pcd_special_loop i n) then Ok [] else
             v <- slot blob hb hl (pcd_special_arg i) ;; r <- special_loop k blob hb hl (i + 1) n ;;
             Ok (match special_field i with Some c => (c, v) :: r | None => r end)
    end.
  Definition parse_code_directory (blob : bytes) (itype : Z) : result pdir :=
    if zlen blob <? cdh_size then Err E_SHORT else                 (* binary.Read of the fixed size header *)
    let hdr := read_hdr blob in
    ident <- (if pcd_has_ident (h_identoff hdr) then cstring blob (h_identoff hdr) else Ok []) ;;
    team <- (if pcd_has_team (h_teamoff hdr) then cstring blob (h_teamoff hdr) else Ok []) ;;
    if pcd_has_scatter (h_scatter hdr) then Err E_SCATTER else
    hf <- hash_func (h_hashtype hdr) (h_hashsize hdr) ;;
    let hb := h_hashoff hdr in let hl := h_hashsize hdr in
    if pcd_slots_bad (h_nspecial hdr) (h_ncode hdr) hl hb (zlen blob) then Err E_SHORT else
    _ <- alloc (zlen blob) (24 * h_ncode hdr) ;;                  (* make([][]byte, hdr.CodeSlotCount) *)
    codes <- code_loop (S (Z.to_nat (h_ncode hdr))) blob hb hl pcd_code_loop_init (h_ncode hdr) ;;
    specials <- special_loop (S (Z.to_nat (h_nspecial hdr))) blob hb hl pcd_special_loop_init (h_nspecial hdr) ;;
    Ok (mkDir hdr ident team hf blob (H hf blob) itype codes specials).
  Definition dir_special (d : pdir) (code : Z) : option bytes :=
    match find (fun kv => fst kv =? code) (rev (d_specials d)) with Some (_, v) => v | None => None end.
End WithHash.

(* ================================================================== 3. Sign (lib/fruit/csblob/sign.go), after the defaults are applied *)
Record sparams := mkSP {
  sp_hash : Z; sp_info : option bytes; sp_res : option bytes; sp_flags : Z; sp_req : option bytes; sp_ent : option bytes;
  sp_der : option bytes; sp_rep : option bytes; sp_ident : bytes; sp_team : bytes; sp_esb : Z; sp_esl : Z; sp_esf : Z }.

Definition sign_layout_ok : bool :=
  list_eqb (list_eqb Z.eqb) sign_req_keys [[cs_magic_requirements]; [cs_magic_requirement]] &&
  list_eqb (list_eqb Z.eqb) sign_req_acts [[]; [3; 2; 1]] && (sign_req_magic_tag =? 0) &&
  list_eqb (list_eqb Z.eqb) sign_new_items [[0; 1; 10; 0; 0]; [0; 2; 10; 0; 0]; [0; 5; 11; 0; 0]; [0; 7; 12; 0; 0]; [0; 101; 13; 0; 0]] &&
  list_eqb (list_eqb Z.eqb) sign_marshals [[0; 2; 3; 0; 0]; [0; 200; 4; 0; 0]] &&
  list_eqb (list_eqb Z.eqb) sign_appends [[0; 1; 5; 0; 0]; [0; 1; 5; 0; 0]; [0; 1; 5; 0; 0]; [0; 2; 99; 0; 0]; [0; 3; 8; 0; 0]; [0; 4; 6; 0; 0]; [0; 4; 1; 0; 0]; [0; 4; 9; 0; 0]] &&
  list_eqb (list_eqb Z.eqb) sign_cms_content [[0; 1; 0; 0; 0]] && list_eqb Z.eqb sign_first_targets_then [1; 2] && list_eqb Z.eqb sign_first_targets_else [2] &&
  (sign_trim_step =? 1).

(* the requirements parameter: a requirement set is kept, a single requirement becomes the designated requirement of a new set *)
Definition req_item (v : bytes) : result sitem :=
  if sign_req_short (zlen v) then Err E_REQ else
  let m := rd32 0 v in
  v' <- (if m =? cs_magic_requirements then Ok v
         else if m =? cs_magic_requirement then
           let j := new_super_item cs_magic_requirement (zdrop sign_req_strip v) in
           Ok (marshal_super cs_magic_requirements [mkSI cs_designated_requirement (si_magic j) (si_data j)])
         else Err E_REQ) ;;
  Ok (new_super_item cs_magic_requirements (zdrop sign_req_strip v')).

Fixpoint trim_specials (fuel : nat) (l : list (option bytes)) : list (option bytes) :=
  match fuel with
  | O => l
  | S k => match l with
           | x :: r => if sign_trim_cond (match x with None => true | Some _ => false end) (zlen l) then trim_specials k r else l
           | [] => l
           end
  end.

Record splan := mkPlan {
  pl_items : list sitem;              (* code directories, then requirements / entitlements / DER entitlements *)
  pl_content : bytes;                 (* builder.SetContentData *)
  pl_attr : list (Z * bytes);         (* AttrCodeDirHashes: (crypto.Hash id, digest of a directory) *)
  pl_plist : list bytes }.            (* AttrCodeDirHashPlist: digests cut to 20 bytes *)

Section WithHash2.
  Variable H : Z -> bytes -> bytes.

  (* hashPages: C09 proves hashPages = chunks 4096 for every split of the stream into reads *)
  Definition hash_pages (h : Z) (single : bool) (stream : bytes) : bytes * Z * Z :=
    if single then (H h stream, 1, zlen stream)
    else let cs := C09.Model.chunks C09.Model.macho_page_size stream in (concat (map (H h) cs), zlen cs, zlen stream).

  Definition special_of (p : sparams) (req ent der : option sitem) (code : Z) : option bytes :=
    let d := fun o => match o with Some it => Some (si_data it) | None => None end in
    if code =? 7 then d der else if code =? 6 then sp_rep p else if code =? 5 then d ent else if code =? 3 then sp_res p
    else if code =? 2 then d req else if code =? 1 then sp_info p else None.

  Fixpoint sign_dirs (p : sparams) (specials : list (option bytes)) (stream : bytes) (i : Z) (hfs : list Z)
    : result (list sitem * list (Z * bytes) * list bytes * bytes) :=
    match hfs with
    | [] => Ok ([], [], [], [])
    | h :: r =>
        let single := sign_single_page (match sp_rep p with Some _ => true | None => false end) in
        let '(slots, count, limit) := hash_pages h single stream in
        res <- new_code_directory H (mkCP (sp_flags p) (sp_ident p) (sp_team p) (sp_esb p) (sp_esl p) (sp_esf p) specials slots count h limit single) ;;
        rest <- sign_dirs p specials stream (i + 1) r ;;
        let '(its, attr, pl, first) := rest in
        let it := mkSI (if sign_is_first_cd i then sign_first_itype else sign_alt_itype i) cs_magic_codedirectory (fst res) in
        Ok (it :: its, (h, snd res) :: attr, ztake sign_plist_trunc (snd res) :: pl, if sign_is_first_cd i then fst res else first)
    end.

  Definition opt_item (magic : Z) (o : option bytes) : option sitem :=
    match o with Some b => Some (new_super_item magic b) | None => None end.
  Definition olist {A} (o : option A) : list A := match o with Some a => [a] | None => [] end.

  Definition sign_plan (hfs : list Z) (p : sparams) (stream : bytes) : result splan :=
    if negb sign_layout_ok then Ok (mkPlan [] [] [] []) else
    req <- (match sp_req p with Some v => r <- req_item v ;; Ok (Some r) | None => Ok None end) ;;
    let ent := opt_item cs_magic_entitlement (sp_ent p) in
    let der := opt_item cs_magic_entitlement_der (sp_der p) in
    let specials := trim_specials 7 (map (special_of p req ent der) sign_specials_order) in
    d <- sign_dirs p specials stream 0 hfs ;;
    let '(its, attr, pl, first) := d in
    Ok (mkPlan (its ++ olist req ++ olist ent ++ olist der) first attr pl).
  Definition sign_hash_list (p : sparams) : list Z := if sign_hash_funcs_n =? 1 then [sp_hash p] else [].
  Definition sign_finish (pl : splan) (cms : bytes) : bytes :=
    marshal_super cs_magic_embedded (pl_items pl ++ [new_super_item cs_magic_blobwrapper cms]).

  (* ================================================================== 4. parseSignature / Verify / VerifyPages *)
  Record sigblob := mkSig {
    sg_req : option bytes; sg_ent : option bytes; sg_der : option bytes; sg_ticket : option bytes; sg_unknown : list bytes;
    sg_dirs : list pdir; sg_cms : option bytes }.
  Definition psig_act (itype : Z) : Z :=
    if negb (psig_n =? 6) then 99 else
    match sw_run [psig_cond_0 itype; psig_cond_1 itype; psig_cond_2 itype; psig_cond_3 itype; psig_cond_4 itype; psig_cond_5 itype]
                 psig_acts psig_fall false with
    | c :: _ => c
    | [] => match psig_default with c :: _ => c | [] => 99 end
    end.
  Fixpoint insert_dir (d : pdir) (l : list pdir) : list pdir :=
    match l with [] => [d] | x :: r => if d_itype d <? d_itype x then d :: l else x :: insert_dir d r end.
  Fixpoint sort_dirs (l : list pdir) : list pdir := match l with [] => [] | d :: r => insert_dir d (sort_dirs r) end.
  Fixpoint psig_items (items : list sitem) (s : sigblob) : result sigblob :=
    match items with
    | [] => Ok s
    | it :: r =>
        let a := psig_act (si_type it) in
        let d := si_data it in
        s' <- (if a =? 2 then Ok (mkSig (Some d) (sg_ent s) (sg_der s) (sg_ticket s) (sg_unknown s) (sg_dirs s) (sg_cms s))
               else if a =? 5 then Ok (mkSig (sg_req s) (Some d) (sg_der s) (sg_ticket s) (sg_unknown s) (sg_dirs s) (sg_cms s))
               else if a =? 7 then Ok (mkSig (sg_req s) (sg_ent s) (Some d) (sg_ticket s) (sg_unknown s) (sg_dirs s) (sg_cms s))
               else if a =? 102 then Ok (mkSig (sg_req s) (sg_ent s) (sg_der s) (Some d) (sg_unknown s) (sg_dirs s) (sg_cms s))
               else if a =? 100 then
                 dir <- parse_code_directory H d (si_type it) ;;
                 Ok (mkSig (sg_req s) (sg_ent s) (sg_der s) (sg_ticket s) (sg_unknown s) (sg_dirs s ++ [dir]) (sg_cms s))
               else if a =? 101 then
                 if psig_cms_empty (zlen d) then Ok (mkSig (sg_req s) (sg_ent s) (sg_der s) (sg_ticket s) (sg_unknown s) (sg_dirs s) None)
                 else c <- cslice psig_cms_skip (zlen d) d ;;
                      Ok (mkSig (sg_req s) (sg_ent s) (sg_der s) (sg_ticket s) (sg_unknown s) (sg_dirs s) (Some c))
               else Ok (mkSig (sg_req s) (sg_ent s) (sg_der s) (sg_ticket s) (sg_unknown s ++ [d]) (sg_dirs s) (sg_cms s))) ;;
        psig_items r s'
    end.
  Definition parse_signature (blob : bytes) : result sigblob :=
    r <- parse_super blob ;;
    if psig_magic_bad (fst r) then Err E_MAGIC else
    s <- psig_items (snd r) (mkSig None None None None [] [] None) ;;
    Ok (mkSig (sg_req s) (sg_ent s) (sg_der s) (sg_ticket s) (sg_unknown s) (if psig_sorts_by_itype then sort_dirs (sg_dirs s) else sg_dirs s) (sg_cms s)).

  Record vparams := mkVP { vp_info : option bytes; vp_res : option bytes; vp_rep : option bytes }.
  Definition vfy_layout_ok : bool :=
    list_eqb (list_eqb Z.eqb) vfy_checks [[0; 0; 7; 7; 0]; [0; 0; 5; 5; 0]; [0; 0; 2; 2; 0]; [0; 0; 6; 6; 0]; [0; 0; 1; 1; 0]; [0; 0; 3; 3; 0]] &&
    (zlen vfy_check_guards =? 6) && list_eqb Z.eqb vfy_order [0; 1; 2; 3; 4] && vfy_attr_lookup_by_hash &&
    list_eqb (list_eqb Z.eqb) pcd_cdhash_calls [[0; 2; 0; 0; 0]; [1; 4; 0; 0; 0]].
  (* the blob / parameter a check hashes, and whether the parameter is present *)
  Definition check_blob (s : sigblob) (vp : vparams) (code : Z) : option bytes :=
    if code =? 7 then sg_der s else if code =? 5 then sg_ent s else if code =? 2 then sg_req s else if code =? 6 then vp_rep vp
    else if code =? 1 then vp_info vp else if code =? 3 then vp_res vp else None.
  Definition obytes (o : option bytes) : bytes := match o with Some b => b | None => [] end.
  Definition isSome {A} (o : option A) : bool := match o with Some _ => true | None => false end.
  Fixpoint run_checks (s : sigblob) (vp : vparams) (d : pdir) (checks : list (list Z)) (guards : list (bool -> bool -> bool)) : result unit :=
    match checks, guards with
    | c :: cr, g :: gr =>
        let bcode := nth 2 c 0 in let scode := nth 3 c 0 in
        let sl := dir_special d scode in
        let b := check_blob s vp bcode in
        if g (isSome sl) (isSome b) then
          if bytes_eqb (H (d_hash d) (obytes b)) (obytes sl) then run_checks s vp d cr gr else Err E_DIGEST
        else run_checks s vp d cr gr
    | _, _ => Ok tt
    end.
  Fixpoint check_dirs (s : sigblob) (vp : vparams) (dirs : list pdir) (computed : list (Z * bytes)) : result (list (Z * bytes)) :=
    match dirs with
    | [] => Ok computed
    | d :: r => _ <- run_checks s vp d vfy_checks vfy_check_guards ;;
                check_dirs s vp r ((d_hash d, H (d_hash d) (d_raw d)) :: computed)     (* map assignment: the newest entry wins *)
    end.
  Fixpoint clookup (h : Z) (c : list (Z * bytes)) : option bytes :=
    match c with [] => None | (a, b) :: r => if a =? h then Some b else clookup h r end.
  Fixpoint check_attr (attr : list (Z * bytes)) (computed : list (Z * bytes)) : result unit :=
    match attr with
    | [] => Ok tt
    | (h, dg) :: r => match clookup h computed with
                      | None => if vfy_attr_missing true then Err E_MISSING else check_attr r computed
                      | Some hc => if bytes_eqb hc dg then check_attr r computed else Err E_DIGEST
                      end
    end.
  Fixpoint check_plist_each (expected actual : list bytes) : result unit :=
    match expected, actual with
    | e :: er, a :: ar => if bytes_eqb e a then check_plist_each er ar else Err E_DIGEST
    | _, _ => Ok tt
    end.
  (* the PKCS#7 layer is an oracle: cms bytes -> content -> None (rejected) | Some (cd hash attribute if present, plist hashes if present) *)
  Variable cms_verify : bytes -> bytes -> option (option (list (Z * bytes)) * option (list bytes)).
  Definition cs_verify (blob : bytes) (vp : vparams) : result sigblob :=
    if negb vfy_layout_ok then Err 99 else
    s <- parse_signature blob ;;
    computed <- check_dirs s vp (sg_dirs s) [] ;;
    if vfy_no_dirs (zlen (sg_dirs s)) then Err E_NODIR else
    let content := match nth_error (sg_dirs s) (Z.to_nat vfy_content_dir) with Some d => d_raw d | None => [] end in
    if vfy_no_cms (negb (isSome (sg_cms s))) then Err E_NOCMS else
    match cms_verify (obytes (sg_cms s)) content with
    | None => Err E_CMS
    | Some (attr, plist) =>
        _ <- (match attr with Some a => check_attr a computed | None => Ok tt end) ;;
        _ <- (match plist with
              | Some pl =>
                  let computed_list := map (fun d => ztake vfy_plist_trunc (obytes (clookup (d_hash d) computed))) (sg_dirs s) in
                  if vfy_plist_count_bad (zlen pl) (zlen computed_list) then Err E_COUNT else check_plist_each pl computed_list
              | None => Ok tt
              end) ;;
        Ok s
    end.

  Fixpoint best_dir (dirs : list pdir) (cur : option pdir) : option pdir :=
    match dirs with
    | [] => cur
    | d2 :: r => best_dir r (if vfy_better_dir (negb (isSome cur)) (h_hashtype (d_hdr d2)) (match cur with Some d => h_hashtype (d_hdr d) | None => 0 end)
                             then Some d2 else cur)
    end.
  (* CodeSize(): the generated translation of the whole function *)
  Definition code_size (s : sigblob) : Z :=
    match best_dir (sg_dirs s) None with
    | None => cs_code_size_of true 0 0
    | Some d => cs_code_size_of false (h_limit64 (d_hdr d)) (h_limit (d_hdr d))
    end.
  (* what VerifyPages reads: best directory, its page size byte, code slots (an all-zero slot is nil), digest, CodeSize() *)
  Definition vp_input (s : sigblob) (lim : Z) : vin :=
    match best_dir (sg_dirs s) None with
    | None => mkVin true 0 [] 0 (code_size s) lim
    | Some d => mkVin false (h_pagesize (d_hdr d)) (map obytes (d_codes d)) (d_hash d) (code_size s) lim
    end.
  (* VerifyPages on the reader content rd: the generated program vp_prog (FmtMACHO_gen) run by the interpreter of FmtMACHO/VpLang.v;
     input_len bounds a single allocation (alloc_limit) *)
  Definition verify_pages_rd (s : sigblob) (input_len : Z) (rd : bytes) : result unit :=
    vp_exec H (vp_input s (alloc_limit input_len)) vp_prog rd.
  (* io.NewSectionReader(file, 0, n): a negative n overflows the limit computation and the section extends to the end of the file *)
  Definition section_reader (file : bytes) (n : Z) : bytes := if n <? 0 then file else ztk n file.
  (* machos.Verify: VerifyPages(io.NewSectionReader(file, 0, CodeSize())) *)
  Definition verify_pages (s : sigblob) (file : bytes) : result unit :=
    verify_pages_rd s (zlen file) (section_reader file (code_size s)).
End WithHash2.

(* ================================================================== domains of the CodeDirectory theorems *)
Fixpoint split_slots (n : nat) (hs : Z) (l : bytes) : list bytes :=
  match n with O => [] | S k => ztake hs l :: split_slots k hs (zdrop hs l) end.
(* parameters newCodeDirectory is meant for: a supported digest, identifier and team identifier without NUL, 32 bit flags, code slots of
   the right total size, a code limit an int64 can hold, and a directory below 4 GiB *)
Definition cd_wf (H : Z -> bytes -> bytes) (p : cdparams) : Prop :=
  let hs := go_hash_size (cp_hash p) in
  (exists ht, lookup (cp_hash p) cs_hash_type_of = Some ht /\ 0 <= ht < 256) /\
  Forall (fun c => c <> 0) (cp_ident p) /\ Forall (fun c => c <> 0) (cp_team p) /\
  0 <= cp_flags p < 4294967296 /\ 0 <= cp_ncode p /\ zlen (cp_code_slots p) = cp_ncode p * hs /\
  0 <= cp_code_limit p < 9223372036854775808 /\
  (forall x, zlen (H (cp_hash p) x) = hs) /\
  88 + (zlen (cp_ident p) + 1) + (zlen (cp_team p) + 1) + zlen (cp_specials p) * hs + zlen (cp_code_slots p) < 4294967296.
Definition cd_expected_view (H : Z -> bytes -> bytes) (p : cdparams) (ht : Z) : cdview :=
  let hs := go_hash_size (cp_hash p) in
  let es := negb ((cp_es_base p =? 0) && (cp_es_limit p =? 0) && (cp_es_flags p =? 0)) in
  mkView (cp_ident p) (match cp_team p with [] => None | _ => Some (cp_team p) end) (cp_flags p) (if es then 132096 else 131840) (cp_code_limit p)
         (if cp_single p then 0 else 12) ht hs (rev (map (special_slot_bytes H (cp_hash p)) (cp_specials p)))
         (split_slots (Z.to_nat (cp_ncode p)) hs (cp_code_slots p))
         (if es then Some (cp_es_base p mod 18446744073709551616, cp_es_limit p mod 18446744073709551616, cp_es_flags p mod 18446744073709551616) else None).
